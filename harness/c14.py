"""C14 — IDs are displayed using only the terminal features their ID space allows.

The high-level path is exercised for real: `TupimageTerminal.display_only` on a TupimageTerminal
built with BytesIO streams, a temporary id_database and config="DEFAULT".  The constructor always
opens /dev/tty (it passes in_userinput=None), so the object lives in a `pty.fork()` child of a
helper process (`python -m harness.c14 --host`, single-threaded, so forking is safe); cases go in
and display-stream bytes come back as JSON.

K: bytes written by display_only vs Tup.Model.Placeholder.displayOnly (= toStream with
   displayMode / getFormatting + final cursor move) through drv_ph.
F: the REAL bytes on the specification terminal: every placeholder cell's foreground is a
   24-bit colour only if the ID's space (Spec.Layout.inSpace, through drv_ids) has 24 colour bits,
   a cell carries a third diacritic only if the space uses it, and the rectangle still decodes to
   the full 32-bit ID at the expected positions.

Family `dargs` (argument handling of display_only): the `id` argument as an integer, an ImagePlaceholder or an ImageInstance
(constructed, returned by assign_id, or read back with get_image_instance), any subset of the rectangle overrides,
allow_expansion on/off, abs_pos with negative components, final_cursor_pos by name / left to the terminal object's default /
an unknown name, fewer_diacritics given or left to the configuration.
K: status, bytes written (also those written before a late ValueError) and the returned placeholder vs
   Tup.Model.DisplayArgs.displayCall (drv_ph `dcall`); get_image_placeholder_mode(<the object>) vs `dispmode`.
F: the rectangle the request stands for is computed here from the request alone (overrides replace the object's own
   start/end; allow_expansion=False keeps the end inside the object's own end); whatever was printed must decode to exactly
   that rectangle with only the features the ID's space allows; a request without a defined rectangle (integer id without both
   ends or with allow_expansion=False, abs_pos together with line feeds, a negative abs_pos) must not put any placeholder cell
   on the screen.
Grid `dargs_pid_grid` (same judgement): an ImagePlaceholder with placement id 0 / 1 / 255 / 0xABCDEF / 2^24-1 through every output
   route of display_only (at the cursor, line feeds, abs_pos at the origin and elsewhere) and every final cursor position: each
   route hands the request on to print_placeholder separately, and each must print cells that decode to the requested placement id.
"""
from __future__ import annotations

import io
import itertools
import json
import os
import subprocess
import sys
from pathlib import Path

from . import ph_util as U
from .common import REPO, VERIF, Ctx, ToolFailure

DRIVERS = ["drv_ph", "drv_ids"]
EVIDENCE = dict(
    level="proof",
    trusted=[
        "Spec.Layout.inSpace (feature table of the ID spaces), Spec.Term, Spec.Decode + pinned table",
        "PIL.ImageColor.getrgb resolves '#rrggbb' to (r, g, b) (the model receives the resolved triple)",
        "pty hosting of TupimageTerminal (harness/c14.py --host)",
    ],
)

SPACES = [(0, 1), (8, 1), (24, 1), (8, 0), (24, 0)]
PH = 0x10EEEE


# ------------------------------------------------------------------------------------------
# host: runs inside `python -m harness.c14 --host`
# ------------------------------------------------------------------------------------------
def _display_all(cases):
    import tempfile
    for v in list(os.environ):
        if v.startswith("TUPIMAGE") or v in ("TMUX", "SSH_CLIENT", "SSH_TTY", "SSH_CONNECTION"):
            del os.environ[v]
    sys.path.insert(0, str(REPO))
    from tupimage.placeholder import ImagePlaceholder
    from tupimage.tupimage_terminal import TupimageTerminal
    td = tempfile.mkdtemp(prefix="vc14")
    out = io.BytesIO()
    term = TupimageTerminal(out_command=io.BytesIO(), out_display=out, in_response=io.BytesIO(),
                            id_database=os.path.join(td, "ids.db"), config="DEFAULT")
    fpn = {"br": "bottom-right", "tr": "top-right", "tl": "top-left", "bl": "bottom-left"}
    res = []
    for n_case, c in enumerate(cases):
        if c.get("k") == "alloc":
            res.append(_alloc_scenario(c, td, n_case))
            continue
        if c.get("k") == "dargs":
            res.append(_dargs_call(term, out, c, n_case))
            continue
        out.seek(0)
        out.truncate()
        sc, sr, ec, er = c["rect"]
        bg = c["bg"]
        background = "none" if bg[0] == "none" else (bg[1] if bg[0] == "idx" else "#%02x%02x%02x" % tuple(bg[1:]))
        kw = dict(fewer_diacritics=bool(c["fewer"]), background=background, abs_pos=tuple(c["pos"]) if c.get("pos") else None,
                  final_cursor_pos=fpn[c.get("fp", "br")], use_line_feeds=bool(c.get("lf", 0)))
        try:
            if c.get("via", "int") == "ph":
                r = term.display_only(ImagePlaceholder(c["id"], c.get("pid", 0), sc, sr, ec, er), **kw)
            else:
                r = term.display_only(c["id"], start_col=sc, start_row=sr, end_col=ec, end_row=er, **kw)
            res.append(["ok", out.getvalue().hex(), [r.image_id, r.placement_id, r.start_col, r.start_row, r.end_col, r.end_row]])
        except ValueError:
            res.append(["err value", out.getvalue().hex(), None])
        except IndexError:
            res.append(["err index", out.getvalue().hex(), None])
    import shutil
    shutil.rmtree(td, ignore_errors=True)
    return res


FPN = {"br": "bottom-right", "tr": "top-right", "tl": "top-left", "bl": "bottom-left", "bad": "middle"}


def _dargs_call(term, out, c, n_case):
    """One display_only call of the family `dargs` on the long-lived terminal -> [status, bytes hex, returned fields, mode fields].
    The object handed over as `id` is made the way a caller gets one; options the case leaves out are NOT passed."""
    import datetime
    from tupimage.placeholder import ImagePlaceholder
    from tupimage.tupimage_terminal import ImageInstance
    via, n, own = c["via"], c["id"], c.get("own")
    try:
        if via == "int":
            obj = n
        elif via == "ph":
            obj = ImagePlaceholder(n, *own)
        elif via == "inst-new":
            obj = ImageInstance(path=f":c14:{n_case}", mtime=datetime.datetime.fromtimestamp(0), cols=own[0], rows=own[1], id=n)
        else:
            obj = term.assign_id(f":c14:dargs:{n_case}", cols=own[0], rows=own[1], force_id=n)
            if via == "inst-db":
                obj = term.get_image_instance(n)
    except Exception as e:          # noqa: BLE001
        return ["prep " + type(e).__name__, "", None, None]
    kw = {}
    for name, v in zip(("start_col", "start_row", "end_col", "end_row"), c["ov"]):
        if v is not None:
            kw[name] = v
    if c.get("ae") is not None:
        kw["allow_expansion"] = bool(c["ae"])
    if c.get("fewer") is not None:
        kw["fewer_diacritics"] = bool(c["fewer"])
    bg = c["bg"]
    kw["background"] = "none" if bg[0] == "none" else (bg[1] if bg[0] == "idx" else "#%02x%02x%02x" % tuple(bg[1:]))
    if c.get("pos") is not None:
        kw["abs_pos"] = tuple(c["pos"])
    if c.get("lf"):
        kw["use_line_feeds"] = True
    if c.get("fp", "def") != "def":
        kw["final_cursor_pos"] = FPN[c["fp"]]
    saved = (term.final_cursor_pos, term.fewer_diacritics)
    term.final_cursor_pos = FPN[c.get("cfgfp", "bl")]
    term.fewer_diacritics = bool(c.get("cfgfewer", 0))
    mode = None
    try:
        try:
            m = term.get_image_placeholder_mode(obj, **({"fewer_diacritics": kw["fewer_diacritics"]} if "fewer_diacritics" in kw else {}))
            mode = [int(m.allow_256colors_for_image_id), int(m.allow_256colors_for_placement_id), int(m.skip_placement_id_if_zero),
                    m.first_column_diacritic_level.value, m.other_columns_diacritic_level.value, ord(m.placeholder_char)]
        except Exception as e:          # noqa: BLE001
            mode = "err " + type(e).__name__
        out.seek(0)
        out.truncate()
        try:
            r = term.display_only(obj, **kw)
            return ["ok", out.getvalue().hex(), [r.image_id, r.placement_id, r.start_col, r.start_row, r.end_col, r.end_row], mode]
        except ValueError:
            return ["err value", out.getvalue().hex(), None, mode]
        except IndexError:
            return ["err index", out.getvalue().hex(), None, mode]
        except Exception as e:          # noqa: BLE001
            return ["err " + type(e).__name__, out.getvalue().hex(), None, mode]
    finally:
        term.final_cursor_pos, term.fewer_diacritics = saved


def _alloc_scenario(c, td, n_case):
    """One long-lived TupimageTerminal whose ID space is CONFIGURED (object or text, through one of the configuration layers,
    possibly changed later through the `id_space` property); images are given IDs by the library (assign_id / upload_and_display,
    default or explicit space in any accepted form) and displayed through the high-level path. Returns per step
    [status, display bytes hex, returned placeholder, id]."""
    from tupimage import id_manager as im
    from tupimage.tupimage_terminal import TupimageConfig, TupimageTerminal

    def scrub():
        for v in list(os.environ):
            if v.startswith("TUPIMAGE"):
                del os.environ[v]

    def value(name, form):
        if form["t"] == "obj":
            return im.IDSpace(form["v"][0], bool(form["v"][1])) if name == "id_space" else im.IDSubspace(form["v"][0], form["v"][1])
        return form["v"]

    scrub()
    out, cmd = io.BytesIO(), io.BytesIO()
    cfg = c.get("cfg") or {}
    via = cfg.get("via", "kwargs")
    vals = {k: value(k, cfg[k]) for k in ("id_space", "id_subspace") if k in cfg}
    base = dict(out_command=cmd, out_display=out, in_response=io.BytesIO(), id_database=os.path.join(td, f"alloc{n_case}.db"),
                num_tmux_layers=0, upload_method="direct")
    steps_out = []
    try:
        if via == "kwargs":
            term = TupimageTerminal(config="DEFAULT", **base, **vals)
        elif via == "overrides":
            term = TupimageTerminal(config="DEFAULT", config_overrides=dict(vals), **base)
        elif via == "env":
            for k, v in vals.items():
                os.environ["TUPIMAGE_" + k.upper()] = str(v)
            term = TupimageTerminal(config="DEFAULT", **base)
        elif via == "toml":
            path = os.path.join(td, f"alloc{n_case}.toml")
            with open(path, "w") as f:
                for k, v in vals.items():
                    f.write(f'{k} = "{v}"\n')
            term = TupimageTerminal(config=path, **base)
        elif via == "property":
            term = TupimageTerminal(config="DEFAULT", **base)
            for k, v in vals.items():
                setattr(term, k, v)
        elif via == "cfgobj":
            term = TupimageTerminal(config=TupimageConfig(**vals), **base)
        else:
            raise KeyError(via)
    except Exception as e:          # noqa: BLE001
        scrub()
        return ["alloc", [["err ctor " + type(e).__name__ + ": " + str(e)[:200], "", None, None]]]
    try:
        for st in c["steps"]:
            if st["op"] == "set":
                for k in ("id_space", "id_subspace"):
                    if k in st:
                        setattr(term, k, value(k, st[k]))
                steps_out.append(["set", "", None, None])
                continue
            arg = None
            if st.get("spa") and st["spa"]["t"] != "none":
                arg = value("id_space", st["spa"])
            out.seek(0)
            out.truncate()
            try:
                if st.get("how") == "uad":
                    from PIL import Image
                    img = Image.new("RGB", (4, 4), (st["img"] & 255, (st["img"] >> 8) & 255, (st["img"] >> 16) & 255))
                    r = term.upload_and_display(img, cols=st["cols"], rows=st["rows"], id_space=arg, fewer_diacritics=bool(st["fewer"]),
                                                final_cursor_pos="bottom-right")
                else:
                    inst = term.assign_id(f":c14:{st['img']}", cols=st["cols"], rows=st["rows"], id_space=arg)
                    out.seek(0)
                    out.truncate()
                    r = term.display_only(inst, fewer_diacritics=bool(st["fewer"]), final_cursor_pos="bottom-right")
                steps_out.append(["ok", out.getvalue().hex(), [r.image_id, r.placement_id, r.start_col, r.start_row, r.end_col, r.end_row], r.image_id])
            except Exception as e:          # noqa: BLE001
                steps_out.append(["err " + type(e).__name__ + ": " + str(e)[:200], out.getvalue().hex(), None, None])
    finally:
        scrub()
        try:
            term.id_manager.close()
        except Exception:          # noqa: BLE001
            pass
    return ["alloc", steps_out]


def host_main():
    import pty
    cases = json.load(sys.stdin)
    r, w = os.pipe()
    pid, fd = pty.fork()
    if pid == 0:
        code = 0
        try:
            os.close(r)
            data = json.dumps(_display_all(cases)).encode()
            with os.fdopen(w, "wb") as f:
                f.write(data)
        except BaseException:
            import traceback
            try:
                os.write(w, ("HOSTFAIL " + traceback.format_exc()).encode())
            except OSError:
                pass
            code = 3
        os._exit(code)
    os.close(w)
    chunks = []
    while True:
        b = os.read(r, 1 << 20)
        if not b:
            break
        chunks.append(b)
    os.waitpid(pid, 0)
    os.close(fd)
    sys.stdout.write(b"".join(chunks).decode())


def host(cases):
    env = dict(os.environ, VERIF_REPO=str(REPO))
    r = subprocess.run([sys.executable, "-m", "harness.c14", "--host"], cwd=str(VERIF), input=json.dumps(cases), text=True,
                       stdout=subprocess.PIPE, stderr=subprocess.PIPE, env=env, timeout=3000)
    if r.returncode != 0 or not r.stdout.startswith("["):
        raise ToolFailure("pty host failed: " + (r.stdout[:2000] + r.stderr[-2000:]))
    return json.loads(r.stdout)


# ------------------------------------------------------------------------------------------
def _reqs(c, res):
    sc, sr, ec, er = c["rect"]
    p = [c["id"], c.get("pid", 0) if c.get("via") == "ph" else 0, sc, sr, ec, er]
    bg = c["bg"]
    bgs = ":".join(str(x) for x in bg)
    pos = f"{c['pos'][0]}:{c['pos'][1]}" if c.get("pos") else "-"
    reqs = [f"display {U.ph_str(p)} {int(c['fewer'])} {bgs} {pos} {int(c.get('lf', 0))} {c.get('fp', 'br')}"]
    if res[0] == "ok" and U.in_domain(p):
        onlcr = 1 if c.get("lf") else 0
        reqs.append(U.req_spec(c["W"], c["H"], c["x0"], c["y0"], 1, c.get("rs", 1), onlcr, c.get("sgr", ["-", "-", "-"]), bytes.fromhex(res[1])))
    return p, reqs


def _space_of(ctx, n, cache={}):
    if n not in cache:
        d = ctx.driver("drv_ids")
        owners = [s for s in SPACES if d.ask(f"spec_inspace {s[0]} {s[1]} {n}") == "1"]
        cache[n] = owners
        if len(cache) > 300000:
            cache.clear()
    return cache[n]


def _judge(ctx: Ctx, c, res, p, replies, req0=""):
    st, data = res[0], bytes.fromhex(res[1])
    ctx.count("impl:" + st)
    mst, mdata = U.model_bytes(replies[0])
    if st == mst == "ok" and data != mdata and p[5] > U.TABLE and \
            U.model_bytes(ctx.driver("drv_ph").ask(req0.replace("display ", "display9 ", 1))) == ("ok", data):
        # C14 does not depend on the trailing reset of blank lines (defect D9 of C13): either variant is accepted
        ctx.count("K:matches-model-without-D9-repair")
    elif st != mst:
        ctx.mismatch("display_only status", c, st, mst)
    elif st == "ok" and data != mdata:
        ctx.mismatch("display_only bytes", c, data.hex()[:400], mdata.hex()[:400])
    if st == "ok" and res[2] != p:
        ctx.mismatch("display_only returned placeholder", c, res[2], p)
    if st != "ok" and U.in_domain(p) and not (c.get("lf") and (c.get("pos") or c.get("fp", "br") in ("tr", "tl"))):
        ctx.violation("display_only raised on an addressable placeholder", c, st, key="raises-in-domain")
    if len(replies) < 2:
        return
    _judge_screen(ctx, c, c, p, replies[1])


def _judge_screen(ctx: Ctx, c, v, p, spec_reply, judge_cursor=True):
    """F on the REAL bytes as the specification terminal shows them (`spec_reply`): `c` is the case (reported), `v` the view of
    the call the judgement needs (id, fewer, pos, lf, fp, W, H, x0, y0), `p` the placeholder the request stands for."""
    owners = _space_of(ctx, v["id"])
    if len(owners) != 1:
        ctx.notes.append(f"id {v['id']} is in {len(owners)} spaces by Spec.Layout (C10's business); skipped")
        return
    cb, u3 = owners[0]
    ctx.count(f"space:{cb}:{u3}")
    ctx.count(f"fewer:{int(v['fewer'])}")
    sp = U.parse_spec(spec_reply)
    style = ["abs", v["pos"][0], v["pos"][1]] if v.get("pos") else ["cur", 1, int(v.get("lf", 0))]
    want, cur, s = U.expected(style, p, v["W"], v["H"], v["x0"], v["y0"])
    if judge_cursor and v.get("fp", "br") == "bl" and cur[1] == v["H"] - 1:
        # the final move to the bottom-left is an index (ESC D / LF) on the last line: one more scroll
        want = {(y - 1, x): val for (y, x), val in want.items() if y >= 1}
    if sp["ph"] != want:
        ctx.violation("displayed cells do not decode to the full ID at the expected positions", c,
                      {"space": [cb, u3], "cells": U.diff_cells(sp["ph"], want)}, key="display-decode")
    rgb = [list(k) for k, val in sorted(sp["cells"].items()) if val[0] == PH and val[2].startswith("r")]
    third = [list(k) for k, val in sorted(sp["cells"].items()) if val[0] == PH and len(val[1]) >= 3]
    if rgb:
        ctx.count("uses-truecolor")
    if third:
        ctx.count("uses-3rd-diacritic")
    if rgb and cb != 24:
        ctx.violation("true-colour foreground used for an ID of a space without 24 colour bits", c,
                      {"space": [cb, u3], "cells": rgb[:3]}, key="truecolor-in-small-space")
    if third and not u3:
        ctx.violation("third diacritic used for an ID of a space without the third diacritic", c,
                      {"space": [cb, u3], "cells": third[:3]}, key="third-diacritic-in-space-without")
    if judge_cursor and v.get("fp", "br") == "br" and list(sp["cur"]) != list(cur) and sp["ph"] == want:
        ctx.violation("cursor does not end at the expected position", c, {"cursor": sp["cur"], "expected": cur}, key="final-cursor")


# ------------------------------------------------------------------------------------------
# family `dargs`: the argument handling of display_only
# ------------------------------------------------------------------------------------------
def dargs_spec(c):
    """What the REQUEST stands for, from the request alone (never from the model):
         ("refuse", why)            no rectangle is defined / the combination is documented as invalid: nothing may be shown
         ("rect", p, notes)         p = [id, pid, sc, sr, ec, er], the cells to be shown
         ("unclear", why)           the statement does not say (an explicit 0 override that differs from the object's own value;
                                    allow_expansion=False with a start LEFT of / ABOVE the object's own start): K only."""
    via, ov, own = c["via"], c["ov"], c.get("own")
    ae = True if c.get("ae") is None else bool(c["ae"])
    if via == "int":
        if ov[2] is None or ov[3] is None:
            return ("refuse", "int-without-ends")
        if not ae:
            return ("refuse", "int-no-expansion")
        pid, o = 0, [0, 0, None, None]
    elif via == "ph":
        pid, o = own[0], list(own[1:])
    else:
        pid, o = 0, [0, 0, own[0], own[1]]
    if c.get("pos") is not None and c.get("lf"):
        return ("refuse", "abs-pos-with-line-feeds")
    if c.get("pos") is not None and min(c["pos"]) < 0:
        return ("refuse", "negative-abs-pos")
    if any(v == 0 and o[i] != 0 for i, v in enumerate(ov)):
        return ("unclear", "zero-override")
    r = [o[i] if ov[i] is None else ov[i] for i in range(4)]
    notes = []
    if not ae:
        if r[0] < o[0] or r[1] < o[1]:
            return ("unclear", "no-expansion-start-outside")
        for i, nm in ((2, "col"), (3, "row")):
            if r[i] > o[i]:
                r[i] = o[i]
                notes.append("clipped-" + nm)
    return ("rect", [c["id"], pid, r[0], r[1], r[2], r[3]], notes)


def _dargs_obj(c):
    via, own = c["via"], c.get("own")
    if via == "int":
        return f"int:{c['id']}"
    if via == "ph":
        return "ph:" + ":".join(str(x) for x in [c["id"]] + list(own))
    return f"inst:{c['id']}:{own[0]}:{own[1]}"


def _dargs_fewer(c):
    return bool(c["fewer"]) if c.get("fewer") is not None else bool(c.get("cfgfewer", 0))


def _dargs_reqs(c, res):
    o = lambda v: "-" if v is None else str(v)
    ov = c["ov"]
    ae = 1 if c.get("ae") is None else int(bool(c["ae"]))
    pos = f"{c['pos'][0]}:{c['pos'][1]}" if c.get("pos") is not None else "-"
    reqs = [f"dcall 0 {c.get('cfgfp', 'bl')} {_dargs_obj(c)} {o(ov[0])} {o(ov[1])} {o(ov[2])} {o(ov[3])} {ae} {int(_dargs_fewer(c))} "
            f"{':'.join(str(x) for x in c['bg'])} {pos} {int(bool(c.get('lf')))} {c.get('fp', 'def')}",
            f"dispmode {int(_dargs_fewer(c))}"]
    if res[1]:
        # whatever reached the display stream is shown to the specification terminal (also when the call raised afterwards)
        onlcr = 1 if c.get("lf") else 0
        reqs.append(U.req_spec(c["W"], c["H"], c["x0"], c["y0"], 1, 1, onlcr, c.get("sgr", ["-", "-", "-"]), bytes.fromhex(res[1])))
    return reqs


def _judge_dargs(ctx: Ctx, c, res, replies):
    st, data, ret, mode = res[0], bytes.fromhex(res[1]), res[2], res[3]
    ctx.count("dargs:route:" + c["via"])
    if c["via"] == "ph":
        pid = c["own"][0]
        ctx.count("dargs:placement-id:" + ("0" if pid == 0 else "1..255" if pid < 256 else "true-colour") + ":" +
                  ("abs_pos" if c.get("pos") is not None else "line-feeds" if c.get("lf") else "at-cursor"))
    ctx.count("dargs:impl:" + st)
    if st.startswith("prep "):
        ctx.mismatch("dargs: the object to display could not be obtained", c, st, "an object")
        return
    # K ---------------------------------------------------------------------------------------
    m = replies[0].split(" ")
    if len(m) != 3:
        raise ToolFailure("drv_ph dcall: " + replies[0][:200])
    mst = m[0].replace("_", " ")
    mdata = b"" if m[1] == "-" else bytes.fromhex(m[1])
    mret = None if m[2] == "-" else [int(x) for x in m[2].split(",")]
    if st != mst:
        ctx.mismatch("dargs: display_only status", c, st, mst)
    elif data != mdata:
        ctx.mismatch("dargs: display_only bytes" + ("" if st == "ok" else " written before the error"), c, data.hex()[:400], mdata.hex()[:400])
    elif ret != mret:
        ctx.mismatch("dargs: display_only returned placeholder", c, ret, mret)
    if mode is not None:
        want_mode = [int(x) for x in replies[1].split(" ")] + [PH]
        if mode != want_mode:
            ctx.mismatch("dargs: get_image_placeholder_mode(object)", c, mode, want_mode)
    # F ---------------------------------------------------------------------------------------
    spec = dargs_spec(c)
    ctx.count("dargs:request:" + spec[0] + (":" + spec[1] if spec[0] != "rect" else ""))
    sp = U.parse_spec(replies[2]) if len(replies) > 2 else None
    fp = c.get("fp", "def")
    fp_eff = c.get("cfgfp", "bl") if fp == "def" else fp
    if fp == "def":
        ctx.count("dargs:final-pos-left-to-terminal-default:" + fp_eff)
    if spec[0] == "refuse":
        if sp is not None and sp["ph"]:
            ctx.violation("a display request that defines no rectangle put placeholder cells on the screen", c,
                          {"why": spec[1], "status": st, "cells": U.diff_cells(sp["ph"], {})}, key="refused-request-shows-cells")
        return
    if spec[0] == "unclear":
        if st == "ok" and ret is not None and sp is not None and U.in_domain(ret):
            # whatever rectangle the call reports as displayed must be what is on the screen, with the allowed features only
            v = dict(id=c["id"], fewer=_dargs_fewer(c), pos=c.get("pos"), lf=c.get("lf", 0), fp=fp_eff, W=c["W"], H=c["H"], x0=c["x0"], y0=c["y0"])
            if _fits(v, ret):
                _judge_screen(ctx, c, v, ret, replies[2])
        return
    p, notes = spec[1], spec[2]
    for nt in notes:
        ctx.count("dargs:" + nt)
    late = bool(c.get("lf")) and fp_eff in ("tr", "tl") or fp_eff == "bad"
    if late:
        ctx.count("dargs:late-error:" + fp_eff)
    if st == "ok" and ret != p:
        ctx.violation("display_only reports another rectangle than the request stands for", c, {"returned": ret, "requested": p}, key="dargs-returned-rect")
    if not U.in_domain(p):
        if sp is not None and sp["ph"]:
            ctx.violation("a display request for an empty / unaddressable rectangle put placeholder cells on the screen", c,
                          {"requested": p, "status": st, "cells": U.diff_cells(sp["ph"], {})}, key="refused-request-shows-cells")
        return
    if st != "ok" and not late:
        ctx.violation("display_only raised on an addressable placeholder", c, {"status": st, "requested": p}, key="raises-in-domain")
    if sp is None:
        if st == "ok":
            ctx.violation("display_only printed nothing for an addressable placeholder", c, {"requested": p}, key="display-decode")
        return
    v = dict(id=c["id"], fewer=_dargs_fewer(c), pos=c.get("pos"), lf=c.get("lf", 0), fp=fp_eff, W=c["W"], H=c["H"], x0=c["x0"], y0=c["y0"])
    if _fits(v, p):
        _judge_screen(ctx, c, v, p, replies[2], judge_cursor=(st == "ok"))
    else:
        ctx.count("dargs:geometry-does-not-fit(not judged)")


def _fits(v, p):
    C, R = p[4] - p[2], p[5] - p[3]
    if v.get("pos"):
        return v["pos"][0] + C <= v["W"] and v["pos"][1] + R <= v["H"]
    return v["x0"] + C <= v["W"]


def dargs_case(rng, n):
    via = rng.choice(["int", "ph", "ph", "inst-new", "inst-assign", "inst-db"])
    if not 0 < n <= 0xFFFFFFFF and via in ("inst-assign", "inst-db"):
        via = "inst-new"
    c = dict(k="dargs", id=n, via=via, bg=rng.choice([["none"], ["none"], ["idx", 3], ["rgb", 1, 2, 255]]),
             sgr=rng.choice([["-", "-", "-"], ["r1.2.3", "i5", "i2"]]))
    if via == "ph":
        sc, sr = rng.choice([0, 0, 1, 2, 5]), rng.choice([0, 0, 1, 3])
        own = [rng.choice([0, 0, 1, 255, 256, 0xFFFFFF]), sc, sr, sc + rng.randrange(1, 6), sr + rng.randrange(1, 4)]
        o = own[1:]
        c["own"] = own
    elif via == "int":
        o = [0, 0, rng.randrange(1, 6), rng.randrange(1, 4)]      # what the caller has in mind; passed through the overrides
    else:
        c["own"] = [rng.randrange(1, 7), rng.randrange(1, 5)]
        o = [0, 0] + c["own"]
    ov = [None] * 4
    for i in (0, 1):
        if rng.random() < 0.4:
            ov[i] = max(0, o[i] + rng.choice([-1, 0, 1, 1, 2]))
    for i in (2, 3):
        if rng.random() < (0.9 if via == "int" else 0.5):
            ov[i] = max(0, o[i] + rng.choice([-2, -1, 0, 1, 3])) if via != "int" or rng.random() < 0.3 else o[i]
    if rng.random() < 0.04:
        ov[rng.randrange(4)] = 0
    c["ov"] = ov
    r = rng.random()
    if r < 0.45:
        c["ae"] = 0
    elif r < 0.6:
        c["ae"] = 1
    if via == "int" and c.get("ae") == 0 and rng.random() < 0.7:
        del c["ae"]
    r = rng.random()
    if r < 0.12:
        c["pos"] = [rng.choice([0, 2]), rng.choice([0, 1])]
    elif r < 0.18:
        c["pos"] = rng.choice([[-1, 0], [0, -1], [-2, -3], [3, -1]])
    elif r < 0.4:
        c["lf"] = 1
    if c.get("pos") and rng.random() < 0.15:
        c["lf"] = 1
    c["fp"] = rng.choice(["br", "br", "bl", "tr", "tl", "def", "def", "bad"] if rng.random() < 0.5 else ["br", "def"])
    c["cfgfp"] = rng.choice(["br", "tr", "tl", "bl", "bl"])
    c["fewer"] = rng.choice([0, 1, None])
    if c["fewer"] is None:
        c["cfgfewer"] = rng.randrange(2)
    # terminal geometry: on the rectangle the request stands for (any, for requests without one)
    spec = dargs_spec(c)
    rect = spec[1][2:] if spec[0] == "rect" else [0, 0, 2, 1]
    if spec[0] == "unclear":
        rect = [0, 0, 8, 8]
    if not (rect[0] < rect[2] and rect[1] < rect[3]):
        rect = [0, 0, 2, 1]
    g = dict(rect=rect, pos=c.get("pos") if c.get("pos") and min(c["pos"]) >= 0 else None)
    place(rng, g)
    c.update(W=g["W"], H=g["H"], x0=g["x0"], y0=g["y0"])
    return c


PIDS = [0, 1, 255, 0xABCDEF, 0xFFFFFF]       # none / 256-colour underline / its last value / a true-colour underline / the last placement id


def dargs_pid_grid(rng):
    """ImagePlaceholder ids carrying each kind of placement id x every output route of display_only (at the cursor - the route that
    saves and restores the cursor per line -, line feeds, abs_pos at the origin and elsewhere) x where the cursor is left x one ID of
    each feature class: every printed cell must decode to the REQUESTED placement id (and image id, row, column), whichever branch
    of display_only hands the request on to print_placeholder."""
    ids = [0x2A, 0x123456, 0x05000007, 0x7F000000, 0xFF0000FF]
    routes = [dict(), dict(lf=1), dict(pos=[0, 0]), dict(pos=[3, 2])]
    n = 0
    for pid in PIDS:
        for route in routes:
            for fp in ("br", "bl", "tl", "def"):
                for k in range(2):
                    n += 1
                    sc, sr = rng.choice([(0, 0), (0, 0), (1, 2), (5, 0)])
                    own = [pid, sc, sr, sc + rng.randrange(1, 6), sr + rng.randrange(1, 4)]
                    c = dict(k="dargs", id=ids[n % len(ids)], via="ph", own=own, ov=[None] * 4, bg=rng.choice([["none"], ["idx", 3], ["rgb", 1, 2, 255]]),
                             sgr=rng.choice([["-", "-", "-"], ["r1.2.3", "i5", "i2"]]), fp=fp, cfgfp=rng.choice(["br", "tr", "tl", "bl"]), fewer=(n // 2) % 2)
                    if k and rng.random() < 0.5:
                        c["ov"][2] = own[3] + 1         # one more column than the object's own rectangle
                    c.update({kk: (list(v) if isinstance(v, list) else v) for kk, v in route.items()})
                    g = dict(rect=dargs_spec(c)[1][2:], pos=c.get("pos"))
                    place(rng, g)
                    c.update(W=g["W"], H=g["H"], x0=g["x0"], y0=g["y0"])
                    yield c


def _judge_alloc(ctx: Ctx, c: dict, res):
    """F for an allocation scenario: the placeholder of every library-allocated ID, as really printed, uses a true-colour
    foreground only if the space that APPLIES to the request (explicit argument, else the configured one) has 24 colour bits and
    a third diacritic only if that space uses it, and decodes to the returned ID. K: the bytes against the display model."""
    d = ctx.driver("drv_ph")
    ctx.count("alloc-scenarios")
    ctx.count("alloc-config-via:" + (c.get("cfg") or {}).get("via", "kwargs"))
    for st, r in zip(c["steps"], res[1]):
        if st["op"] == "set":
            continue
        if r[0] != "ok":
            if r[0].startswith("err ctor"):
                ctx.violation("the terminal could not be constructed with a documented form of the ID space", c, r[0], key="alloc-raises")
                return
            ctx.violation("allocation + display raised for a documented form of the ID space", c, {"step": st, "error": r[0]}, key="alloc-raises")
            continue
        rid, cols, rows = r[3], st["cols"], st["rows"]
        cb, u3 = st["expect"]
        ctx.count(f"alloc-space:{cb}:{int(bool(u3))}")
        ctx.count("alloc-form:" + (st.get("spa") or {"t": "none"})["t"])
        c2 = dict(k="disp", id=rid, fewer=st["fewer"], rect=[0, 0, cols, rows], bg=["none"], fp="br", W=cols + 1, H=rows + 1, x0=0, y0=0)
        p, reqs = _reqs(c2, r)
        replies = d.ask_many(reqs)
        _judge(ctx, c2, r, p, replies, reqs[0])
        if len(replies) < 2:
            continue
        sp = U.parse_spec(replies[1])
        rgb = [list(k) for k, v in sorted(sp["cells"].items()) if v[0] == PH and v[2].startswith("r")]
        third = [list(k) for k, v in sorted(sp["cells"].items()) if v[0] == PH and len(v[1]) >= 3]
        detail = {"step": st, "allocated_id": rid, "applicable_space": [cb, u3]}
        if rgb and cb != 24:
            ctx.violation("true-colour foreground used for an ID the library allocated under a space without 24 colour bits", c,
                          dict(detail, cells=rgb[:3]), key="truecolor-in-small-space")
        if third and not u3:
            ctx.violation("third diacritic used for an ID the library allocated under a space without the third diacritic", c,
                          dict(detail, cells=third[:3]), key="third-diacritic-in-space-without")


def run_batch(ctx: Ctx, batch):
    if not batch:
        return
    results = host(batch)
    for c, res in zip(batch, results):
        if c.get("k") == "alloc":
            _judge_alloc(ctx, c, res)
            ctx.case(c, nontrivial=any(r[0] == "ok" for r in res[1]))
    d = ctx.driver("drv_ph")
    dar = [(c, res) for c, res in zip(batch, results) if c.get("k") == "dargs"]
    dreqs = [_dargs_reqs(c, res) for c, res in dar]
    dreplies = d.ask_many([r for reqs in dreqs for r in reqs])
    i = 0
    for (c, res), reqs in zip(dar, dreqs):
        _judge_dargs(ctx, c, res, dreplies[i:i + len(reqs)])
        i += len(reqs)
        ctx.case(c, nontrivial=bool(res[1]))
    pairs = [(c, res) for c, res in zip(batch, results) if c.get("k") not in ("alloc", "dargs")]
    batch, results = [x[0] for x in pairs], [x[1] for x in pairs]
    prep = [(c, res) + _reqs(c, res) for c, res in zip(batch, results)]
    flat = [r for (_, _, _, reqs) in prep for r in reqs]
    replies = ctx.driver("drv_ph").ask_many(flat)
    i = 0
    for c, res, p, reqs in prep:
        _judge(ctx, c, res, p, replies[i:i + len(reqs)], reqs[0])
        i += len(reqs)
        ctx.case(c, nontrivial=(res[0] == "ok"))


def check_case(ctx: Ctx, c: dict):
    res = host([c])[0]
    if c.get("k") == "alloc":
        return _judge_alloc(ctx, c, res)
    if c.get("k") == "dargs":
        return _judge_dargs(ctx, c, res, ctx.driver("drv_ph").ask_many(_dargs_reqs(c, res)))
    p, reqs = _reqs(c, res)
    _judge(ctx, c, res, p, ctx.driver("drv_ph").ask_many(reqs), reqs[0])


# ------------------------------------------------------------------------------------------
def place(rng, c):
    """terminal geometry on which the rectangle fits the width"""
    sc, sr, ec, er = c["rect"]
    R, C = er - sr, ec - sc
    if c.get("pos"):
        px, py = c["pos"]
        W, H = px + C + rng.choice([0, 2]), py + R + rng.choice([0, 1])
        c.update(W=W, H=H, x0=rng.randrange(W + 1), y0=rng.randrange(H))
    else:
        x0 = rng.choice([0, 0, 1, 3])
        H = rng.choice([R, R + 1, R + 2, max(1, R - 1)])
        c.update(W=x0 + C + rng.choice([0, 0, 1]), H=H, x0=x0, y0=rng.choice([0, H - 1, rng.randrange(H)]))
    return c


def mk(rng, n, **kw):
    c = dict(k="disp", id=n, fewer=rng.randrange(2), rect=rng.choice([[0, 0, 1, 1], [0, 0, 3, 2], [0, 0, 2, 3], [1, 0, 3, 1], [0, 2, 4, 4],
                                                                   [2, 1, 5, 2], [0, 295, 2, 298], [295, 0, 299, 2], [0, 0, 7, 1]]),
             bg=rng.choice([["none"], ["none"], ["idx", 3], ["rgb", 1, 2, 255]]), sgr=rng.choice([["-", "-", "-"], ["r1.2.3", "i5", "i2"]]))
    r = rng.random()
    if r < 0.15:
        c["pos"] = [rng.choice([0, 2]), rng.choice([0, 1])]
    elif r < 0.35:
        c["lf"] = 1
    c["fp"] = rng.choice(["br", "br", "br", "bl", "tr", "tl"]) if not c.get("lf") else rng.choice(["br", "br", "bl"])
    if rng.random() < 0.2:
        c["via"] = "ph"
        c["pid"] = rng.choice([0, 1, 255, 256, 0xFFFFFF])
    c.update(kw)
    return place(rng, c)


def _rand_id(rng):
    cb, u3 = rng.choice(SPACES)
    n = (rng.randrange(1, 256) << 24) if u3 else 0
    if cb == 8:
        n |= rng.randrange(1, 256)
    elif cb == 24:
        n |= (rng.randrange(1, 65536) << 8) | rng.randrange(256)
    return n


def alloc_case(rng):
    from .c01 import ALIASES, CFG_VIAS, SPACES as SP5, _space_form
    via = rng.choice(CFG_VIAS)
    text_only = via in ("env", "toml")
    cur = rng.choice(SP5)
    cfg = {"via": via, "id_space": _space_form(rng, cur, allow_int=(via == "cfgobj"), allow_obj=not text_only)}
    if rng.random() < 0.3:
        b = rng.choice([0, 1, 7, 200])
        cfg["id_subspace"] = {"t": "str", "v": f"{b}:{b + rng.choice([2, 3, 56])}"}
    steps = []

    def show():
        st = {"op": "show", "how": rng.choice(["assign", "assign", "uad"]), "img": rng.randrange(1 << 24), "cols": rng.choice([1, 2, 3]),
              "rows": rng.choice([1, 2]), "fewer": rng.randrange(2)}
        if rng.random() < 0.3:
            sp = rng.choice(SP5)
            f = _space_form(rng, sp)
            st["spa"] = f
        else:
            sp = cur
            st["spa"] = {"t": "none"}
        st["expect"] = [sp[0], bool(sp[1])]
        steps.append(st)

    show()
    for _ in range(rng.randrange(1, 4)):
        if rng.random() < 0.6:
            cur = rng.choice(SP5)
            steps.append({"op": "set", "id_space": _space_form(rng, cur, allow_int=False)})
        show()
        if rng.random() < 0.5:
            show()
    return {"k": "alloc", "cfg": cfg, "steps": steps}


def cases(ctx: Ctx):
    rng = ctx.rng
    quick = ctx.quick
    # IDs the library allocates itself under a configured space (text aliases, every configuration layer, default changed later)
    for _ in range(120 if quick else 1500):
        yield alloc_case(rng)
    # byte-class products: every ID shape of every space
    for b3, b2, b1, b0 in itertools.product(U.BYTECLS, repeat=4):
        n = (b3 << 24) | (b2 << 16) | (b1 << 8) | b0
        if n:
            for fewer in (0, 1):
                yield mk(rng, n, fewer=fewer)
    # random ids of each space (by construction of the layout)
    for _ in range(600 if quick else 6000):
        yield mk(rng, _rand_id(rng))
    # placement ids of every kind x every output route of display_only (at cursor, line feeds, abs_pos) x final cursor position
    yield from dargs_pid_grid(rng)
    # the argument handling of display_only: what `id` may be, overrides, allow_expansion, abs_pos, final position, defaults
    for _ in range(1500 if quick else 15000):
        yield dargs_case(rng, _rand_id(rng) if rng.random() < 0.8 else
                         (rng.choice(U.BYTECLS) << 24 | rng.choice(U.BYTECLS) << 16 | rng.choice(U.BYTECLS) << 8 | rng.choice(U.BYTECLS)))
    for n in (0, 2**32, -1):
        yield dargs_case(rng, n)
    # boundary / error inputs
    for n in (0, 2**32, -1):
        yield mk(rng, n)
    yield mk(rng, 5, lf=1, pos=[0, 0])
    yield mk(rng, 5, lf=1, fp="tr")
    yield mk(rng, 5, lf=1, fp="tl")
    yield mk(rng, 5, rect=[297, 0, 299, 1])
    if not quick:
        # every ID of the three enumerable spaces, with and without fewer_diacritics, through the code's own enumeration
        sys.path.insert(0, str(REPO))
        from tupimage.id_manager import IDSpace, IDSubspace
        for cb, u3 in ((0, True), (8, False), (8, True)):
            for n in IDSpace(cb, u3).all_ids(IDSubspace(0, 256)):
                for fewer in (0, 1):
                    yield mk(rng, n, fewer=fewer)


def run(ctx: Ctx):
    ctx.rule = ("cases: allocation scenarios (one long-lived TupimageTerminal, ID space configured as object / text alias through keyword, "
                "config_overrides, environment, config file, property or TupimageConfig, changed through the property between requests; "
                "assign_id + display_only(instance) and upload_and_display with the default or an explicit space in object/text/int form; "
                "features judged against the space that applies to the request); display_only(id or ImagePlaceholder, rectangle, fewer_diacritics, background none/int/'#rrggbb', abs_pos, "
                "use_line_feeds, final_cursor_pos) for every byte-class ID (each byte in {0,1,127,128,255}) with and without "
                "fewer_diacritics, random IDs of each of the 5 spaces; thorough: every ID of the spaces 0-colour+3rd, 8bit, "
                "8bit_diacritic (IDSpace.all_ids, 65 535 IDs) x fewer_diacritics; family dargs: display_only(int | ImagePlaceholder | ImageInstance "
                "constructed / from assign_id / from get_image_instance) x any subset of start/end overrides around the object's own rectangle x "
                "allow_expansion on/off/not given x abs_pos none/valid/negative x line feeds x final_cursor_pos named/terminal default/unknown name x "
                "fewer_diacritics given/left to the configuration, random IDs of the 5 spaces and byte-class IDs; grid: ImagePlaceholder with placement id "
                "0 / 1 / 255 / 0xABCDEF / 2^24-1 x route {at cursor, line feeds, abs_pos (0,0), abs_pos (3,2)} x final_cursor_pos br/bl/tl/default x "
                "one ID of each feature class x fewer_diacritics: every printed cell decodes to the REQUESTED placement id, image id, row, column. distinct = canonical JSON; non-trivial = output produced")
    corpus_dir = Path(__file__).resolve().parent.parent / "corpus" / "C14"
    if corpus_dir.is_dir():
        for fp in sorted(corpus_dir.glob("*.json")):
            c = json.load(open(fp))
            c = c.get("case", c)
            check_case(ctx, c)
            ctx.case(c)
            ctx.count("corpus")
    batch = []
    for c in cases(ctx):
        if ctx.time_left() < 0:
            ctx.count("skipped-over-budget")
            continue
        batch.append(c)
        if len(batch) >= 4000:
            run_batch(ctx, batch)
            batch = []
    run_batch(ctx, batch)
    if not ctx.quick and not ctx.dist.get("skipped-over-budget"):
        ctx.extra["exhaustive_over"] = "all IDs of the three enumerable spaces x fewer_diacritics (the other two spaces: byte classes + random)"
    ctx.assumptions += [
        "the space of an ID is decided by Spec.Layout.inSpace (C10 shows the code's spaces are exactly these)",
        "rectangle fits the terminal width from the start column; line-feed style judged with ONLCR",
        "config='DEFAULT' (placeholder_char U+10EEEE); background colour strings are resolved by PIL",
    ]


if __name__ == "__main__":
    if "--host" in sys.argv:
        host_main()
