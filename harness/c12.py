"""C12 — a process killed mid-operation leaves the session database consistent and usable.

Crash enumeration on the real code: for each operation x database fill state the number of SQL
statements n is read from a traced dry run; for EVERY k <= n a forked child runs the operation and
`os._exit`s inside sqlite's trace callback immediately before statement k (this includes "before
every COMMIT"); one more child dies right after the operation returned.  The implementation's
random choices are scripted (same in the dry run and in every crash run) so the complete effect
is known exactly.  The parent then reopens the file and judges by the property:
  * it opens normally;
  * its contents are the pre-state or the post-state of the operation (for the large-subspace
    get_id additionally: the pre-state after the operation's own completed clean-ups — each a
    complete public `cleanup`; see DESIGN.md C12);
  * every stored ID sits in its own space's table with a description and a timestamp;
  * a fresh process allocates at once (no lock survives the dead process).
"""
from __future__ import annotations

import json
import os
import random
import shutil
import sqlite3
import tempfile
import time
from pathlib import Path

from .common import Ctx
from . import sched as S
from .c03 import SPACES, apply_op, BlockRecorder, compare_block_structure, _RecordingClock

DRIVERS = ["drv_db", "drv_e2e"]     # drv_e2e serves lean/Tup/Drv/Txn.lean (`txn blocks …`)
EVIDENCE = dict(
    level="proof",
    trusted=[
        "sqlite WAL recovery and rollback of an open transaction when its process dies; the OS releasing file locks (observed on this kernel/sqlite, not proved)",
        "os._exit inside the trace callback = SIGKILL-style death at a statement boundary",
    ],
)

TABLES = ("ids_8bit", "ids_16bit", "ids_24bit", "ids_32bit", "ids_8bit_diacritic")


def _im():
    from tupimage import id_manager as im
    return im


class ScriptedSecrets:
    """Deterministic stand-in for the `secrets` module inside tupimage.id_manager."""

    def __init__(self, seed, force=None):
        self.r = random.Random(seed)
        self.force = list(force or [])   # scripted gen_random_id results are achieved through randbelow values

    def randbelow(self, n):
        if self.force:
            return self.force.pop(0) % n
        return self.r.randrange(n)

    def choice(self, seq):
        return seq[self.r.randrange(len(seq))] if not isinstance(seq, list) else sorted(seq)[self.r.randrange(len(seq))]


def full_dump(dbfile):
    con = sqlite3.connect(dbfile)
    try:
        out = {}
        for name in TABLES:
            out[name] = sorted(con.execute(f"SELECT id, description, atime FROM {name}").fetchall())
        out["upload"] = sorted(con.execute("SELECT id, terminal, description, size, upload_time FROM upload").fetchall())
        return out
    finally:
        con.close()


def strip_times(d):
    return {k: [tuple(r[:-1]) for r in v] for k, v in d.items()}


def build_state(dbfile, c):
    im = _im()
    m = im.IDManager(dbfile, max_ids_per_subspace=c.get("max_ids", 1024))
    base = im.datetime(2030, 1, 1, 12, 0, 0)
    for j, (i, desc) in enumerate(c.get("prefill", [])):
        m.set_id(i, desc, atime=base + im.timedelta(seconds=j))
    for j, (i, term, size) in enumerate(c.get("preupload", [])):
        m.mark_uploaded(i, term, size=size, upload_time=base + im.timedelta(seconds=100 + j))
    bulk = c.get("bulk")
    if bulk:
        # fill a 16-bit subspace densely so that rejection sampling collides
        space, b3, frac_seed, n = bulk
        r = random.Random(frac_seed)
        ids = r.sample([(b3 << 24) | b0 for b0 in range(1, 256)], n)
        for j, i in enumerate(ids):
            m.set_id(i, f"bulk{i}", atime=base + im.timedelta(seconds=200 + j))
    b24 = c.get("bulk24")
    if b24:
        b2, sd, n = b24
        r = random.Random(sd)
        ids = r.sample(range((b2 << 16) + 1, (b2 << 16) + 65536), n)
        con = m.conn
        con.execute("BEGIN")
        con.executemany("INSERT INTO ids_24bit (id, description, atime) VALUES (?, ?, ?)",
                        [(i, f"bulk{i}", (base + im.timedelta(seconds=300 + j)).isoformat()) for j, i in enumerate(ids)])
        con.execute("COMMIT")
    m.close()


def run_op(dbfile, c, die_before=None, die_after=False, rec=None):
    """runs the operation in THIS process; returns (result, statements). With die_before=k the process exits before statement k.
    `rec` (a dict, dry run only) receives what the block-structure correspondence needs: the full statements, the
    atomic blocks with "changed the database" flags (table dumps at every block boundary) and the clock value read."""
    im = _im()
    # clock and randomness are functions of the case only: identical in the dry run and in every crash run
    S.install_fakes()
    S.set_current(c.get("seed", 1), 1, 0, 0)
    m = im.IDManager(dbfile, max_ids_per_subspace=c.get("max_ids", 1024))
    stmts = []
    recorder = BlockRecorder(m.conn, dbfile) if rec is not None else None
    clock = _RecordingClock() if rec is not None else None      # same values as the installed fake, remembered

    def trace(sql):
        if die_before is not None and len(stmts) == die_before:
            os._exit(77)
        stmts.append(sql.split(None, 2)[0:2])
        if recorder is not None:
            recorder.before_statement(sql)

    m.conn.set_trace_callback(trace)
    try:
        r = apply_op(m, c["op"])
    except RuntimeError as e:
        r = "RuntimeError"
    if die_after:
        os._exit(77)
    m.conn.set_trace_callback(None)
    if recorder is not None:
        rec.update(blocks=recorder.finish(), full=recorder.stmts, now_us=clock.first_us(), clock_reads=len(clock.log))
        clock.uninstall()
    m.close()
    return r, stmts


def check_invariants(ctx, c, case, dbfile):
    im = _im()
    try:
        t0 = time.time()
        m = im.IDManager(dbfile, max_ids_per_subspace=c.get("max_ids", 1024))
    except Exception as e:
        ctx.violation("database does not open after the crash", case, repr(e), key="reopen-fails")
        return None
    try:
        d = full_dump(dbfile)
        for name in TABLES:
            for (i, desc, atime) in d[name]:
                ok = True
                try:
                    ok = ("ids_" + str(im.IDSpace.from_id(i))) == name and desc is not None and atime is not None and im.datetime.fromisoformat(atime)
                except Exception:
                    ok = False
                if not ok:
                    ctx.violation("a stored ID is not in its own space's table with a description and a timestamp", case,
                                  {"table": name, "row": [i, desc, atime]}, key="row-invariant")
        # other processes continue without waiting for the dead one
        t1 = time.time()
        try:
            m.get_id("after-crash-probe", im.IDSpace(24, True))
            dt = time.time() - t1
            if dt > 5.0:
                ctx.violation("a fresh process had to wait for the dead one", case, {"seconds": dt}, key="lock-survives")
        except Exception as e:
            ctx.violation("a fresh process cannot allocate after the crash", case, repr(e), key="allocate-after-crash")
        return d
    finally:
        m.close()


class _OpenShim:
    """stands in for the `sqlite3` module inside tupimage.id_manager while a database is being OPENED: the trace callback is
    attached at `connect`, so the statements of `IDManager.__init__` (PRAGMAs, schema DDL) are crash points too"""

    def __init__(self, real, die_before, log):
        self._real, self._die, self._log = real, die_before, log

    def connect(self, *a, **kw):
        conn = self._real.connect(*a, **kw)

        def trace(sql):
            if self._die is not None and len(self._log) == self._die:
                os._exit(77)
            self._log.append(" ".join(sql.split())[:120])

        conn.set_trace_callback(trace)
        return conn

    def __getattr__(self, name):
        return getattr(self._real, name)


def _open_fresh(dbfile, die_before=None):
    """IDManager(dbfile) on a file that may not exist yet, in THIS process; -> statements executed while opening"""
    im = _im()
    log = []
    real = im.sqlite3
    im.sqlite3 = _OpenShim(real, die_before, log)
    try:
        m = im.IDManager(dbfile)
        m.conn.set_trace_callback(None)
        m.close()
    finally:
        im.sqlite3 = real
    return log


PROBE_AFTER_OPEN = [
    ["get", "P8", "8bit", 5, 7], ["get", "P8d", "8bit_diacritic", 1, 3], ["get", "P16", "16bit", 1, 2], ["get", "P24", "24bit", 3, 4],
    ["get", "P32", "32bit", 0, 256], ["set", 77, "S"], ["mark", 77, "T", 5], ["cleanup", "8bit", 0, 256, 10], ["cleanup_uploads", 10], ["del", 77],
]


def check_open_crash(ctx: Ctx, c: dict):
    """The very first process to open a session database dies while it is setting the file up (before statement k of
    `IDManager.__init__`, k over all of them).  By the property the file must then open normally for everybody else and every
    operation must work: whatever part of the schema the dead process left is completed by the next one to open the file."""
    im = _im()
    td = tempfile.mkdtemp(prefix="vc12o")
    try:
        db0 = os.path.join(td, "dry.db")
        pid = os.fork()
        if pid == 0:
            try:
                log = _open_fresh(db0)
                with open(os.path.join(td, "dry.json"), "w") as f:
                    json.dump(log, f)
                os._exit(0)
            except BaseException as e:
                with open(os.path.join(td, "dry.err"), "w") as f:
                    f.write(repr(e))
                os._exit(3)
        os.waitpid(pid, 0)
        if not os.path.exists(os.path.join(td, "dry.json")):
            raise RuntimeError("dry run of the first open failed: " + open(os.path.join(td, "dry.err")).read())
        full = json.load(open(os.path.join(td, "dry.json")))
        kinds = [" ".join(x.split()[:3]) for x in full]
        n = len(kinds)
        ctx.count(f"open:statements={n}")
        # K: the DDL statements of the real first open = the statement list of Model/Schema.lean (`reopen_completes_schema`,
        # `open_after_creators_killed` are about that list); everything else it executes must be a PRAGMA (autocommit mode: the closing `commit()` has nothing to commit)
        import re
        ddl, other = [], []
        for x in full:
            mm = re.match(r"CREATE (TABLE|INDEX) IF NOT EXISTS (\w+)", x)
            (ddl if mm else other).append(f"{mm.group(1)} {mm.group(2)}" if mm else x)
        model = ctx.driver("drv_e2e").ask("schema stmts").split(";")
        ctx.eq("DDL statements of IDManager.__init__ on a fresh file vs Model.Schema.stmts", c, ddl, model)
        ctx.eq("non-DDL statements of IDManager.__init__", c, [x for x in other if not x.startswith("PRAGMA")], [])
        for k in (c.get("ks") or range(n + 1)):
            # `again`: how many further processes die at the same point of THEIR open before one gets through
            dbk = os.path.join(td, f"k{k}.db")
            for rep in range(1 + c.get("again", 0)):
                pid = os.fork()
                if pid == 0:
                    try:
                        _open_fresh(dbk, die_before=(k if k < n else None))
                    finally:
                        os._exit(77 if k >= n else 5)
                _, st = os.waitpid(pid, 0)
                code = os.waitstatus_to_exitcode(st)
                if code != 77:
                    # a later opener may need fewer statements than the first one: it finished before its planned death
                    ctx.count("open-crash:finished-before-planned-death" if code == 5 and rep > 0 else "open-crash:unexpected-exit")
                    if not (code == 5 and rep > 0):
                        ctx.mismatch("crash child of the first open did not die at the planned statement", dict(c, ks=[k]), code, 77)
            case = dict(c, ks=[k])
            ctx.count("open-crash-points")
            ctx.count("crash-points")
            ctx.count("open-crash-before:" + (kinds[k] if k < n else "RETURN"))
            t0 = time.time()
            try:
                m = im.IDManager(dbk)
            except Exception as e:
                ctx.violation("database does not open after the process that created it was killed", case,
                              {"crash_before_statement": k, "of": n, "statement": kinds[k] if k < n else "RETURN", "error": repr(e)}, key="reopen-fails")
                continue
            try:
                for op in PROBE_AFTER_OPEN:
                    try:
                        apply_op(m, op)
                    except Exception as e:
                        ctx.violation("an operation fails on a database whose creator was killed while setting it up", case,
                                      {"crash_before_statement": k, "of": n, "statement": kinds[k] if k < n else "RETURN", "operation": op,
                                       "error": repr(e)}, key="operation-after-open-crash")
                        break
                if time.time() - t0 > 5.0:
                    ctx.violation("a fresh process had to wait for the dead one", case, {"seconds": time.time() - t0}, key="lock-survives")
            finally:
                m.close()
    finally:
        shutil.rmtree(td, ignore_errors=True)


def check_case(ctx: Ctx, c: dict):
    if c.get("k") == "open-crash":
        return check_open_crash(ctx, c)
    td = tempfile.mkdtemp(prefix="vc12")
    try:
        # dry run: pre, post, statements
        db0 = os.path.join(td, "dry.db")
        build_state(db0, c)
        pre = full_dump(db0)
        pid = os.fork()
        if pid == 0:
            try:
                rec = {}
                r, stmts = run_op(db0, c, rec=rec)
                with open(os.path.join(td, "dry.json"), "w") as f:
                    json.dump({"r": r if isinstance(r, (int, str, bool, type(None))) else repr(r), "stmts": stmts, "rec": rec}, f)
                os._exit(0)
            except BaseException as e:
                with open(os.path.join(td, "dry.err"), "w") as f:
                    f.write(repr(e))
                os._exit(3)
        os.waitpid(pid, 0)
        if not os.path.exists(os.path.join(td, "dry.json")):
            raise RuntimeError("dry run failed: " + open(os.path.join(td, "dry.err")).read())
        dry = json.load(open(os.path.join(td, "dry.json")))
        post = full_dump(db0)
        n = len(dry["stmts"])
        ctx.count(f"op:{c['op'][0]}")
        ctx.count(f"statements={n}")
        kinds = [" ".join(s) for s in dry["stmts"]]
        # K: the atomic blocks of the real call (kind, changed-the-database) = the blocks of the transaction model
        # (`Model.Txn.lone` on the same database, with the implementation's choices) — the granularity at which
        # `crash_atomic_*` / `linearizable` are stated
        rec = dry["rec"]
        compare_block_structure(ctx, c, op=c["op"], max_ids=c.get("max_ids", 1024), pre=pre, post=post, result=dry["r"],
                                blocks=rec["blocks"], stmts=rec["full"], now_us=rec["now_us"])
        # admissible intermediate states: after each completed internal cleanup of a large-subspace get_id
        ks = c.get("ks") or list(range(n + 1))
        for k in ks:
            dbk = os.path.join(td, f"k{k}.db")
            build_state(dbk, c)
            pid = os.fork()
            if pid == 0:
                try:
                    run_op(dbk, c, die_before=(k if k < n else None), die_after=(k >= n))
                finally:
                    os._exit(5)
            _, st = os.waitpid(pid, 0)
            code = os.waitstatus_to_exitcode(st)
            case = dict(c, ks=[k])
            if code != 77:
                ctx.mismatch("crash child did not die at the planned statement", case, code, 77)
                continue
            got = full_dump(dbk)
            ctx.count("crash-points")
            ctx.count("crash-before:" + (kinds[k] if k < n else "RETURN"))
            allowed = [pre, post]
            inter = None
            if c["op"][0] == "get" and _large_path(c):
                # pre-state after the operation's own completed clean-ups: rows of pre that survive, nothing new
                inter = True
            g = got
            if g not in allowed:
                ok = False
                if inter:
                    # every table ⊆ pre, other tables identical, and what is missing is an oldest-first prefix of the subspace (a complete cleanup)
                    ok = _is_pre_after_cleanups(c, pre, got) and any("DELETE" in s for s in kinds[:k])
                    if ok:
                        ctx.count("state:pre-after-own-cleanups")
                if not ok:
                    ctx.violation("after the crash the database holds neither the complete effect of the operation nor none of it", case,
                                  {"crash_before_statement": k, "of": n, "statement": kinds[k] if k < n else "RETURN",
                                   "diff_vs_pre": _diff(pre, g), "diff_vs_post": _diff(post, g)}, key="partial-effect")
            elif g == allowed[0]:
                ctx.count("state:pre")
            else:
                ctx.count("state:post")
            check_invariants(ctx, c, case, dbk)
            for ext in ("", "-wal", "-shm"):
                try:
                    os.unlink(dbk + ext)
                except OSError:
                    pass
    finally:
        shutil.rmtree(td, ignore_errors=True)


def _diff(a, b):
    out = {}
    for k in a:
        sa, sb = set(a[k]), set(b[k])
        if sa != sb:
            out[k] = {"missing": sorted(sa - sb)[:4], "extra": sorted(sb - sa)[:4]}
    return out


def _large_path(c):
    im = _im()
    op = c["op"]
    size = im.IDSpace(*SPACES[op[2]]).subspace_size(im.IDSubspace(op[3], op[4]))
    return size > min(1024, c.get("max_ids", 1024))


def _is_pre_after_cleanups(c, pre, got):
    im = _im()
    op = c["op"]
    sp = im.IDSpace(*SPACES[op[2]])
    sub = im.IDSubspace(op[3], op[4])
    size = sp.subspace_size(sub)
    targets = [min(int(size * f), c.get("max_ids", 1024)) for f in (0.75, 0.6, 0.5)]
    table = "ids_" + str(sp)
    for k in pre:
        if k != table and pre[k] != got[k]:
            return False
    p, g = pre[table], got[table]
    if not set(g) <= set(p):
        return False
    removed = set(p) - set(g)
    if not all(sp.contains_and_in_subspace(r[0], sub) for r in removed):
        return False
    kept_in = [r for r in g if sp.contains_and_in_subspace(r[0], sub)]
    if removed and len(kept_in) not in targets:
        return False
    if removed and kept_in and max(r[2] for r in removed) > min(r[2] for r in kept_in):
        return False
    return True


def cases(ctx: Ctx):
    rng = ctx.rng
    yield dict(k="open-crash")                 # the creator of the file is killed at every statement of its open
    yield dict(k="open-crash", again=1)        # … and so is the next process, at the same point of its own open
    fills = {
        "empty": dict(prefill=[]),
        "some": dict(prefill=[[5, "A"], [6, "B"], [0x01000005, "C"], [0x010203, "D"], [0x02030405, "E"]], preupload=[[5, "T", 10], [6, "T", 20], [6, "U", 5]]),
        "full-8bit-5:7": dict(prefill=[[5, "A"], [6, "B"], [7, "Z"]], preupload=[[5, "T", 10]]),
    }
    ops = [
        ["get", "A", "8bit", 5, 7],          # hit (in 'some'/'full')
        ["get", "N", "8bit", 5, 7],          # free id / recycle when full
        ["get", "N", "8bit", 5, 8],
        ["get", "N", "32bit", 0, 256],       # large path, no collision
        ["get", "E", "32bit", 0, 256],       # large path hit
        ["get", "N", "16bit", 1, 2],
        ["set", 6, "NEW"],
        ["set", 77, "NEW"],
        ["del", 6],
        ["del", 99],
        ["cleanup", "8bit", 5, 8, 1],
        ["cleanup", "8bit", 0, 256, 0],
        ["mark", 5, "T", 123],
        ["mark", 6, "V", 9],
        ["mark", 99, "T", 1],
        ["cleanup_uploads", 1],
        ["cleanup_uploads", 0],
    ]
    for fname, fill in fills.items():
        for op in ops:
            yield dict(k="crash", fill=fname, op=op, seed=rng.randrange(1 << 20), **fill)
    # large-subspace path with forced collisions: a 16-bit subspace (255 ids) filled to 100 % -> 8 collisions, cleanups, final error
    for n, max_ids in [(255, 1024), (255, 100), (253, 50), (255, 10), (240, 3)]:
        yield dict(k="crash", fill=f"dense16-{n}", op=["get", "N", "16bit", 1, 2], max_ids=max_ids, seed=rng.randrange(1 << 20),
                   prefill=[[5, "A"]], bulk=["16bit", 1, rng.randrange(1 << 20), n])
    # many rows: explicit clean-ups that remove far more than a few hundred rows at once
    for (rows, mx) in [(1300, 300), (700, 200)]:
        yield dict(k="crash", fill=f"big24-{rows}", op=["cleanup", "24bit", 3, 4, mx], seed=rng.randrange(1 << 20), prefill=[[5, "A"]],
                   bulk24=[3, rng.randrange(1 << 20), rows])
    yield dict(k="crash", fill="big24-1100", op=["get", "N", "24bit", 3, 4], max_ids=400, seed=rng.randrange(1 << 20), prefill=[[5, "A"]],
               bulk24=[3, rng.randrange(1 << 20), 1100], ks=[0, 1, 2, 3])
    if not ctx.quick:
        for _ in range(20):
            fname = rng.choice(list(fills))
            yield dict(k="crash", fill=fname, op=rng.choice(ops), seed=rng.randrange(1 << 20), max_ids=rng.choice([1024, 2, 1]), **fills[fname])


def run(ctx: Ctx):
    ctx.rule = ("operation x fill state (empty / some rows + upload rows / completely full 8-bit subspace / dense 16-bit subspace forcing the "
                "rejection-sampling, clean-up and exhaustion path) x EVERY statement index k of the traced dry run (crash before statement k, "
                "including before COMMIT) plus a crash right after the operation returned; and the FIRST OPEN of a fresh file killed before every "
                "statement of IDManager.__init__ (once, and twice in a row), after which the file must open and every operation must work; "
                "distinct = (case, k); non-trivial = all")
    cdir = Path(__file__).resolve().parent.parent / "corpus" / "C12"
    if cdir.is_dir():
        for f in sorted(cdir.glob("*.json")):
            c = json.load(open(f))
            check_case(ctx, c)
            ctx.case(c)
            ctx.count("corpus")
    for c in cases(ctx):
        if ctx.time_left() < 0:
            ctx.count("skipped-over-budget")
            continue
        before = ctx.dist.get("crash-points", 0)
        check_case(ctx, c)
        ctx.case(c)
        n = ctx.dist.get("crash-points", 0) - before
        ctx.evaluations += max(0, n - 1)
        ctx.nontrivial += max(0, n - 1)
    ctx.exhaustive = ctx.dist.get("skipped-over-budget", 0) == 0
