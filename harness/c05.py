"""C05 — inline transmissions are chunked losslessly within the command size limit.

K: GraphicsCommand.send / TransmitCommand.split / GraphicsTerminal.send_command (bytes written to the
   command stream, per-chunk callback sequence, ValueError) vs Tup.Model.Command.send through drv_cmd.
F: Tup.Spec.GfxParse.checkSend on the implementation's stream: split into top-level escape codes,
   size of each <= max (wrappers included), tmux-unwrap n times, parse, base64-decode, concatenate = data,
   m flags / padding of non-last chunks, keys of first and continuation chunks; error => nothing written.
"""
from __future__ import annotations

import io
import os
import tempfile

from .common import Ctx, hx
from . import c06
from .c06 import build, tokens, data_bytes, is_inline, gcmod, enum_names

DRIVERS = ["drv_cmd"]
EVIDENCE = dict(
    level="proof",
    trusted=[
        "BinaryIO.read(n) returns exactly min(n, remaining) bytes on seekable streams (BytesIO and regular files are exercised)",
        "Python bytes %-formatting, str(int), base64.b64encode (mirrored by Tup.Basic/Tup.Base64; compared on every case)",
        "Spec.GfxParse / Spec.TmuxUnwrap are transcriptions of the kitty graphics protocol and of tmux's pass-through convention",
    ],
)

_TMP = None


def _tmpdir():
    global _TMP
    if _TMP is None:
        _TMP = tempfile.TemporaryDirectory(prefix="vc05")
    return _TMP.name


def real_template(n: int) -> bytes:
    """The template the real GraphicsTerminal builds for n tmux layers (no tty is opened)."""
    from tupimage import graphics_terminal as gt
    t = gt.GraphicsTerminal(out_command=io.BytesIO(), out_display=io.BytesIO(), in_response=io.BytesIO(), in_userinput=io.BytesIO(),
                            num_tmux_layers=n)
    return t.get_graphics_command_template()


class Rec(io.BytesIO):
    """command stream that also records the individual writes"""

    def __init__(self):
        super().__init__()
        self.writes = []

    def write(self, b):
        self.writes.append(bytes(b))
        return super().write(b)


def make_data(kind: str, data: bytes):
    """bytes | BytesIO (position not at 0) | real file opened 'rb'"""
    if kind == "bytes":
        return data, None
    if kind == "bytesio":
        s = io.BytesIO(data)
        s.seek(len(data) // 2)
        return s, None
    if kind == "file":
        fd, path = tempfile.mkstemp(dir=_tmpdir())
        os.write(fd, data)
        os.close(fd)
        f = open(path, "rb")
        f.read(min(3, len(data)))
        return f, (f, path)
    raise ValueError(kind)


class env_ctx:
    """TMUX / TERM for the duration of a detect_tmux() call"""

    def __init__(self, tmux, term):
        self.set = {"TMUX": tmux, "TERM": term}

    def __enter__(self):
        self.old = {k: os.environ.get(k) for k in self.set}
        for k, v in self.set.items():
            if v is None:
                os.environ.pop(k, None)
            else:
                os.environ[k] = v

    def __exit__(self, *a):
        for k, v in self.old.items():
            if v is None:
                os.environ.pop(k, None)
            else:
                os.environ[k] = v


def _optb(v):
    return "_" if v is None else hx(v.encode())


# A terminal history: GraphicsTerminal(num_tmux_layers=c["layers"], max_command_size=c["max"]) followed by c["term"]["steps"]:
#   {"how": "clone", "args": {...clone_with keyword arguments...}}   a new object derived from the newest one
#   {"how": "assign_max", "v": x} / {"how": "assign_layers", "v": k} / {"how": "detect", "tmux": .., "term": ..}   on the newest one
#   {"how": "send", "cmd": <command description>, "on": i}   an EARLIER USE: the command is sent through object number i of those
#       existing at that moment (default: the newest).  It configures nothing: what the caller configured afterwards (clone_with
#       arguments, assignments, detection) is what the judged transmission is held against, however often and with whatever any
#       of the objects was used before.  Only the bytes of the judged transmission are looked at.
# The command is sent through object number c["term"]["send_on"] (default: the newest; 0 = the constructed one).
def intended_cfg(d, c):
    """(layers, limit) the CALLER configured on the object the command is sent through.  Not read back from the object:
    clone_with takes over everything it is not told to change; an explicit layer count (0 included) is that count;
    detection gives max(1, configured) layers exactly when the rule of C11's statement holds, else 0."""
    term = c.get("term") or {}
    objs = [[c["layers"], c["max"]]]
    for st in term.get("steps", []):
        cur = objs[-1]
        how = st["how"]
        if how == "clone":
            new = list(cur)
            if st["args"].get("num_tmux_layers") is not None:
                new[0] = st["args"]["num_tmux_layers"]
            objs.append(new)
        elif how == "assign_max":
            cur[1] = st["v"]
        elif how == "assign_layers":
            cur[0] = st["v"]
        elif how == "detect":
            cur[0] = max(1, cur[0]) if d.ask(f"spec_detect {_optb(st['tmux'])} {_optb(st['term'])}") == "1" else 0
        elif how == "send":
            pass                                 # using a terminal configures nothing
        else:
            raise ValueError(how)
    return tuple(objs[term.get("send_on", -1)])


def cfg_tokens(c):
    """the history of the object sent through, for the model (`termcfg` / `termsend` requests of drv_cmd)"""
    term = c.get("term") or {}
    steps = term.get("steps", [])
    nclones = sum(1 for st in steps if st["how"] == "clone")
    idx = term.get("send_on", -1)
    idx = idx if idx >= 0 else nclones + 1 + idx
    out = [str(c["layers"]), "none" if c["max"] is None else str(c["max"])]
    seen = 0
    for st in steps:
        if st["how"] == "clone":
            if seen == idx:
                break
            seen += 1
            k = st["args"].get("num_tmux_layers")
            out.append("clone:" + ("_" if k is None else str(k)))
        elif st["how"] == "assign_max":
            out.append("amax:" + ("none" if st["v"] is None else str(st["v"])))
        elif st["how"] == "assign_layers":
            out.append("alayers:%d" % st["v"])
        elif st["how"] == "detect":
            out.append(f"detect:{_optb(st['tmux'])}:{_optb(st['term'])}")
    return " ".join(out)


def real_terminal(c, out):
    """The real object the command is sent through."""
    from tupimage import graphics_terminal as gt
    term = c.get("term") or {}
    objs = [gt.GraphicsTerminal(out_command=out, out_display=io.BytesIO(), in_response=io.BytesIO(), in_userinput=io.BytesIO(),
                                max_command_size=c["max"], num_tmux_layers=c["layers"])]
    for st in term.get("steps", []):
        cur = objs[-1]
        how = st["how"]
        if how == "clone":
            objs.append(cur.clone_with(**st["args"]))
        elif how == "assign_max":
            cur.max_command_size = st["v"]
        elif how == "assign_layers":
            cur.num_tmux_layers = st["v"]
        elif how == "detect":
            with env_ctx(st["tmux"], st["term"]):
                cur.detect_tmux()
        elif how == "send":
            try:
                objs[st.get("on", -1)].send_command(build(st["cmd"]))
            except ValueError:                   # a limit too small for this command: nothing is sent, the object was used all the same
                real_terminal.rejected += 1
            except Exception as e:               # not an outcome the model knows: reported as a broken correspondence by run_send
                real_terminal.unexpected = "earlier use: " + repr(e)[:200]
        else:
            raise ValueError(how)
    return objs[term.get("send_on", -1)]


real_terminal.rejected = 0
real_terminal.unexpected = None


def run_send(c: dict):
    """Runs the real code for a 'send' case. Returns (raised, stream bytes, callback escapes, writes)."""
    gc = gcmod()
    desc = c["cmd"]
    n = c["layers"]
    data = data_bytes(desc.get("data"))
    dobj, cleanup = make_data(c.get("stream", "bytes"), data)
    obj = build(desc, data_override=dobj)
    tmpl = real_template(n)
    raised = False
    cb = []
    run_send.unexpected = None
    run_send.cfg = None
    try:
        if c.get("via", "send") == "terminal":
            out = Rec()
            real_terminal.unexpected = None
            term = real_terminal(c, out)
            run_send.unexpected = real_terminal.unexpected
            # earlier uses wrote to the same stream: only the judged transmission is kept
            out.seek(0)
            out.truncate()
            out.writes.clear()
            run_send.cfg = (term.num_tmux_layers, term.max_command_size)
            try:
                term.send_command(obj)
            except ValueError:
                raised = True
            except Exception as e:  # not an outcome the model knows: reported as a broken correspondence
                raised = True
                run_send.unexpected = repr(e)[:200]
            cb = None
        else:
            out = Rec()
            try:
                obj.send(out, tmpl, max_size=c["max"], callback=(lambda x: cb.append(x.to_bytes(tmpl))) if c.get("callback", True) else None)
            except ValueError:
                raised = True
            except Exception as e:
                raised = True
                run_send.unexpected = repr(e)[:200]
            if not c.get("callback", True):
                cb = None
    finally:
        if cleanup:
            cleanup[0].close()
            os.unlink(cleanup[1])
    return raised, out.getvalue(), cb, out.writes, tmpl


def check_case(ctx: Ctx, c: dict):
    gc = gcmod()
    d = ctx.driver("drv_cmd")
    k = c["k"]
    ctx.count("kind:" + k)
    if k == "send":
        desc = c["cmd"]
        data = data_bytes(desc.get("data"))
        tok = tokens(desc, data)
        # the configuration the claim is about: what the caller configured on the object the command goes through
        n, mxv = intended_cfg(d, c) if c.get("via") == "terminal" else (c["layers"], c["max"])
        mx = "none" if mxv is None else str(mxv)
        raised, stream, cb, writes, tmpl = run_send(c)
        if c.get("via") == "terminal":
            model = d.ask(f"termsend {cfg_tokens(c)} | {tok}")
            mcfg = d.ask(f"termcfg {cfg_tokens(c)}")
            ctx.eq("num_tmux_layers / max_command_size of the terminal object sent through", c,
                   "%s %s" % (run_send.cfg[0], "none" if run_send.cfg[1] is None else run_send.cfg[1]), mcfg)
            if mcfg != f"{n} {mx}":      # the model of the code and the reading of the caller's configuration must not drift apart
                ctx.mismatch("model terminal configuration vs configured values", c, mcfg, f"{n} {mx}")
            for st in (c.get("term") or {}).get("steps", []):
                ctx.count("term-step:" + st["how"] + (":" + ",".join(sorted(k for k, v in st["args"].items() if v is not None)) if st["how"] == "clone" else
                                                       ":" + st["cmd"]["type"] if st["how"] == "send" else ""))
            hist = [st["how"] for st in (c.get("term") or {}).get("steps", [])]
            if "send" in hist:
                later = hist[hist.index("send") + 1:]
                ctx.count("term-second-use:" + ("then-" + "+".join(sorted(set(later) - {"send"})) if set(later) - {"send"} else "plain"))
            ctx.count("term-limit:" + ("default" if mxv is None else "<4096" if mxv < 4096 else "=4096" if mxv == 4096 else ">4096"))
        else:
            model = d.ask(f"send {n} {mx} {tok}")
        if run_send.unexpected:
            ctx.mismatch("send raised something other than ValueError", c, run_send.unexpected, model[:40])
        ctx.eq("template", {"k": "template", "layers": c["layers"]}, hx(tmpl), d.ask(f"template {c['layers']}"))
        if model == "err":
            ctx.eq("send raises ValueError", c, raised, True)
            ctx.eq("bytes written before the error", c, hx(stream), "-")
            nchunks = 0
        else:
            ctx.eq("send raises ValueError", c, raised, False)
            mlist = model.split(" ")
            if not raised:
                ctx.eq("command stream", c, hx(stream), "".join(mlist))
                if cb is not None:
                    ctx.eq("callback sequence", c, [hx(x) for x in cb], mlist)
            nchunks = len(mlist)
        inline = is_inline(desc)
        ctx.count("medium:" + str((desc.get("f") or {}).get("medium")))
        ctx.count("layers:%d" % n)
        ctx.count("limit:" + ("default" if mxv is None else "<4096" if mxv < 4096 else "4096-5499" if mxv < 5500 else "5500-9999" if mxv < 10000 else "10000+"))
        ctx.count("stream:" + c.get("stream", "bytes"))
        ctx.count("via:" + c.get("via", "send"))
        ctx.count("more:" + str((desc.get("f") or {}).get("more")))
        ctx.count("outcome:" + ("error" if model == "err" else "chunks=%s" % (nchunks if nchunks < 4 else "4+")))
        ctx.count("payload-len:" + ("0" if not data else "1-9" if len(data) < 10 else "10-99" if len(data) < 100 else "100-999" if len(data) < 1000 else "1000-4096" if len(data) <= 4096 else "4097-19999" if len(data) < 20000 else "20000+"))
        ctx.last_nchunks = nchunks
        # F
        if inline:
            r = d.ask(f"spec_checksend {n} {mx} {1 if raised else 0} {hx(stream)} {tok}")
            if r != "ok":
                ctx.violation("inline transmission breaks the chunking property: " + r, c,
                              {"reason": r, "configured_max": mxv, "configured_layers": n, "escape_sizes": _sizes(d, stream),
                               "data_len": len(data)}, key="c05-" + r)
        else:
            # other media: a single unsplit command (only C06's well-formedness applies)
            if raised:
                pass
            else:
                r = d.ask(f"spec_checkcmd {n} {hx(stream)} {tok}")
                if r != "ok":
                    ctx.violation("non-inline transmission is not one well-formed command", c, {"reason": r}, key="c05-other-" + r)
    elif k == "split":
        desc = c["cmd"]
        data = data_bytes(desc.get("data"))
        dobj, cleanup = make_data(c.get("stream", "bytes"), data)
        obj = build(desc, data_override=dobj)
        try:
            parts = list(obj.split(max_payload_size=c["n"]))
            impl = [hx(p.content_to_bytes()) for p in parts]
            kinds = [type(p).__name__ for p in parts]
        finally:
            if cleanup:
                cleanup[0].close()
                os.unlink(cleanup[1])
        model = d.ask(f"split {c['n']} {tokens(desc, data)}").split(" ")
        ctx.eq("split", c, impl, model)
        if kinds[0] != "TransmitCommand" or any(x != "MoreDataCommand" for x in kinds[1:]):
            ctx.mismatch("split command types", c, kinds, "TransmitCommand, MoreDataCommand*")
        ctx.last_nchunks = len(impl)
    else:
        raise ValueError(k)


def _sizes(d, stream):
    r = d.ask(f"spec_splitstream {hx(stream)}")
    if r in ("none", "empty", "bad"):
        return r
    return [len(x) // 2 for x in r.split(" ")][:8]


# ---------------------------------------------------------------------------------------
HEADERS = [
    {"image_id": 5, "medium": "DIRECT"},
    {"image_id": 5},                                             # protocol default medium (= direct)
    {},                                                          # nothing but the action
    {"omit_action": True},                                       # empty header
    {"image_number": 2**32 - 1, "medium": "DIRECT", "more": True},
    {"image_id": 1, "image_number": 7, "more": False, "format": "PNG", "query": True},
    {"image_id": 2**32 - 1, "image_number": 2**32 - 1, "medium": "DIRECT", "size": 2**24 - 1, "offset": 0, "quiet": "QUIET_ALWAYS",
     "format": "RGBA", "compression": "ZLIB", "pix_width": 1, "pix_height": 2**32 - 1,
     "placement": {"placement_id": 2**24 - 1, "virtual": True, "rows": 0, "cols": 1, "do_not_move_cursor": False, "src_x": 0,
                   "src_y": 1, "src_w": 2**32 - 1, "src_h": 2**24 - 1}},
    {"image_id": 77, "medium": None, "more": True, "placement": {}},
]


def hdr_len(ctx, f):
    return len(build({"type": "T", "f": f}).header_to_bytes())


def cases(ctx: Ctx):
    rng = ctx.rng
    quick = ctx.quick
    pats = ["rand", "x", "esc", "ff", "zero"]
    tl = {n: len(real_template(n)) for n in range(0, 5)}
    streams = ["bytes", "bytesio", "file"]
    # (1) limits around the minimum accepted one x payload lengths around multiples of 3 and of the chunk size
    for hi, f in enumerate(HEADERS):
        hl = hdr_len(ctx, f)
        for n in range(0, 5):
            thresh = tl[n] + hl + 8          # first accepted limit for this header/template
            maxes = [0, 1, tl[n], thresh - 9, thresh - 5] + list(range(thresh - 4, thresh + 9)) + [thresh + 11, thresh + 12, thresh + 16, thresh + 41, thresh + 400]
            if quick:
                maxes = [m for m in maxes if m in (0, thresh - 5, thresh + 400) or thresh - 2 <= m <= thresh + 8 or rng.random() < 0.4]
            for mx in maxes:
                if mx < 0:
                    continue
                mp = max(0, (mx - tl[n] - hl - 4) // 4 * 3)
                base = [0, 1, 2, 3, 4, 5, 6, 7]
                if mp >= 1:
                    for mult in (1, 2, 3):
                        base += [mp * mult - 1, mp * mult, mp * mult + 1, mp * mult + 2]
                    base += [3 * mp + 5]
                lens = sorted(set(x for x in base if x >= 0))
                if quick:
                    lens = [x for x in lens if rng.random() < (0.35 if n in (1, 3) or hi >= 4 else 0.6)]
                if mp < 1:
                    lens = rng.sample([0, 1, 3, 10], 2)
                for L in lens:
                    yield {"k": "send", "cmd": {"type": "T", "f": f, "data": {"len": L, "pat": rng.choice(pats), "seed": rng.randrange(1000)}},
                           "layers": n, "max": mx, "stream": rng.choice(streams) if rng.random() < 0.3 else "bytes",
                           "via": "terminal" if rng.random() < 0.15 else "send", "callback": rng.random() < 0.8}
    # (2) default limit (max_size=None -> select.PIPE_BUF) and large payloads, all stream kinds
    for n in range(0, 5):
        for L in [0, 1, 3000, 3050, 3060, 3070, 6100, 10000] + ([] if quick else [40000, 100000]):
            for st in streams:
                f = rng.choice(HEADERS)
                yield {"k": "send", "cmd": {"type": "T", "f": f, "data": {"len": L + rng.randrange(0, 3), "pat": rng.choice(pats), "seed": rng.randrange(1000)}},
                       "layers": n, "max": rng.choice([None, None, 4096, 1000, 100, 257]), "stream": st,
                       "via": rng.choice(["send", "terminal"]), "callback": True}
    # (3) non-direct media are passed through unsplit; more in {None, False, True}; medium None/DIRECT
    for m in [None] + enum_names("medium"):
        for more in [None, False, True]:
            for L in [0, 5, 60, 600]:
                for mx in [0, 30, 60, 100, None]:
                    n = rng.randrange(0, 4)
                    data = {"text": "/tmp/some/file-%d.png" % L} if m in ("FILE", "TEMP_FILE", "SHARED_MEMORY") and L == 5 else \
                        {"len": L, "pat": rng.choice(pats), "seed": rng.randrange(1000)}
                    yield {"k": "send", "cmd": {"type": "T", "f": {"image_id": 9, "medium": m, "more": more}, "data": data},
                           "layers": n, "max": mx, "stream": rng.choice(streams), "via": rng.choice(["send", "terminal"]), "callback": True}
    # (4) random headers from the presence lattice
    ts = c06.t_slots()
    for _ in range(6000 if quick else 100000):
        present = [s for s in ts if rng.random() < rng.choice([0.1, 0.4, 0.8])]
        desc = c06.t_desc(rng, present)
        if rng.random() < 0.8 and desc["f"].get("medium") not in (None, "DIRECT"):
            desc["f"]["medium"] = rng.choice([None, "DIRECT"])
        n = rng.randrange(0, 5)
        hl = hdr_len(ctx, desc["f"])
        thresh = tl[n] + hl + 8
        mx = rng.choice([thresh - 1, thresh, thresh + 1, thresh + 3, thresh + 4, thresh + rng.randrange(0, 60), thresh + rng.randrange(0, 600), None])
        mp = max(1, ((mx if mx is not None else 4096) - tl[n] - hl - 4) // 4 * 3)
        L = rng.choice([0, 1, 2, mp - 1, mp, mp + 1, 2 * mp, 2 * mp + 1, rng.randrange(0, 4 * mp + 2), rng.randrange(0, 12 * mp + 2)])
        L = min(max(L, 0), 20000)
        desc["data"] = {"len": L, "pat": rng.choice(pats), "seed": rng.randrange(1000)}
        yield {"k": "send", "cmd": desc, "layers": n, "max": mx, "stream": rng.choice(streams) if rng.random() < 0.3 else "bytes",
               "via": "terminal" if rng.random() < 0.2 else "send", "callback": rng.random() < 0.7}
    # (7) the claim THROUGH terminal objects: constructed, clone_with-derived (each keyword argument, None / False / True / a layer
    #     count incl. 0), clones of clones, limit or layer count assigned before / after cloning, detect_tmux(), the original after
    #     it was cloned; limits below, at and above 4096 and too small ones; judged against the CONFIGURED limit and layers
    d = ctx.driver("drv_cmd")
    LIMITS = [0, 20, 40, 60, 80, 100, 150, 257, 1000, 3000, 4095, 4096, 4097, 5000, 6000, 9000, None]
    ENVS = [(None, "xterm"), ("/tmp/tmux-0/default,1,0", "tmux-256color"), ("/t,1,0", "screen"), ("", "tmux"), ("x", "linux")]

    def clone_args(f, layers=None):
        pl = f.get("placement")
        safe_fp = pl is None or pl.get("virtual") is True           # force_placeholders=True would rewrite other commands
        a = {}
        if rng.random() < 0.5:
            a["force_placeholders"] = rng.choice([None, False, True] if safe_fp else [None, False])
        if rng.random() < 0.5:
            a["force_direct_transmission"] = rng.choice([None, False, True] if f.get("medium") in (None, "DIRECT") else [None, False])
        if layers is not None or rng.random() < 0.5:
            a["num_tmux_layers"] = layers if layers is not None else rng.choice([None, 0, 0, 1, 2, 3])
        return a

    # earlier uses of a terminal object: a one-chunk and a several-chunk inline transmission, a name transmission, a put, a delete
    EARLIER = [{"type": "T", "f": {"image_id": 3, "medium": "DIRECT", "format": "PNG"}, "data": {"len": 2, "pat": "x"}},
               {"type": "T", "f": {"image_number": 9}, "data": {"len": 700, "pat": "rand", "seed": 5}},
               {"type": "T", "f": {"image_id": 4, "medium": "SHARED_MEMORY"}, "data": {"text": "psm_1a2b3c4d"}},
               {"type": "P", "f": {"image_id": 3, "placement_id": 1, "rows": 1, "cols": 2, "virtual": True}},
               {"type": "D", "f": {"what": "IMAGE_OR_PLACEMENT_BY_ID", "image_id": 3, "delete_data": True}}]

    def use(on=-1):
        st = {"how": "send", "cmd": rng.choice(EARLIER)}
        if on != -1:
            st["on"] = on
        return st

    def other(n):
        return rng.choice([k for k in range(0, 4) if k != n])

    def term_case(f, layers, mx, steps, send_on=-1):
        c = {"k": "send", "cmd": {"type": "T", "f": f, "data": None}, "layers": layers, "max": mx, "via": "terminal",
             "term": {"steps": steps, "send_on": send_on}, "stream": rng.choice(streams) if rng.random() < 0.2 else "bytes", "callback": True}
        n, m = intended_cfg(d, c)
        mp = max(1, ((4096 if m is None else m) - tl.get(n, tl[4]) - hdr_len(ctx, f) - 4) // 4 * 3)
        L = rng.choice([1, mp, mp + 1, 2 * mp, 2 * mp + 1, 2 * mp + 1, 3 * mp + 5, 3 * mp + 5, rng.randrange(0, 4 * mp + 2), 4097, 10001])
        c["cmd"]["data"] = {"len": min(L, 40000), "pat": rng.choice(pats), "seed": rng.randrange(1000)}
        return c

    for mx in [60, 100, 1000, 4000, 4096, 5000, 9000, None]:
        for n in range(0, 4):
            f = rng.choice(HEADERS)
            shapes = [([], -1), ([{"how": "clone", "args": {}}], -1), ([{"how": "clone", "args": {}}], 0),
                      ([{"how": "clone", "args": clone_args(f)}], -1),
                      ([{"how": "clone", "args": {"num_tmux_layers": rng.randrange(0, 4)}}], -1),
                      ([{"how": "clone", "args": clone_args(f)}, {"how": "clone", "args": clone_args(f)}], -1),
                      ([{"how": "assign_max", "v": rng.choice(LIMITS)}, {"how": "clone", "args": clone_args(f)}], -1),
                      ([{"how": "clone", "args": clone_args(f)}, {"how": "assign_max", "v": rng.choice(LIMITS)}], rng.choice([0, -1])),
                      ([{"how": "assign_layers", "v": rng.randrange(0, 4)}, {"how": "clone", "args": {"force_placeholders": False}}], -1)]
            for steps, on in shapes:
                if quick and rng.random() < 0.35:
                    continue
                yield term_case(f, n, mx, steps, on)
            # SECOND USE: the object (or the one it is derived from, or one derived from it) has already sent something when it
            # is reconfigured / cloned / used again; the judged transmission goes through the clone and through the original
            second = [([use(), {"how": "clone", "args": {"num_tmux_layers": other(n)}}], -1),
                      ([use(), {"how": "clone", "args": {"num_tmux_layers": other(n)}}], 0),
                      ([use(), {"how": "clone", "args": clone_args(f, other(n))}, use()], rng.choice([0, -1])),
                      ([{"how": "clone", "args": {"num_tmux_layers": other(n)}}, use(1)], 0),
                      ([{"how": "clone", "args": clone_args(f, other(n))}, use(0)], -1),
                      ([use(), {"how": "assign_layers", "v": other(n)}], -1),
                      ([use(), {"how": "assign_max", "v": rng.choice(LIMITS)}], -1),
                      ([use(), {"how": "detect", "tmux": rng.choice(ENVS)[0], "term": rng.choice(ENVS)[1]}], -1),
                      ([use(), {"how": "clone", "args": clone_args(f)}, use(), {"how": "clone", "args": {"num_tmux_layers": rng.randrange(0, 4)}}],
                       rng.choice([0, 1, -1])),
                      ([use(), use(), {"how": "clone", "args": {}}, {"how": "assign_layers", "v": other(n)}, use(0)], rng.choice([0, -1]))]
            for steps, on in second:
                if quick and rng.random() < 0.35:
                    continue
                yield term_case(f, n, mx, steps, on)
    for _ in range(500 if quick else 20000):
        f = rng.choice(HEADERS)
        steps = []
        for _j in range(rng.randrange(0, 6)):
            how = rng.choice(["clone", "clone", "clone", "assign_max", "assign_layers", "detect", "send", "send"])
            if how == "clone":
                steps.append({"how": "clone", "args": clone_args(f)})
            elif how == "send":
                nobj = 1 + sum(1 for st in steps if st["how"] == "clone")
                steps.append(use(rng.choice([-1, -1, rng.randrange(0, nobj)])))
            elif how == "assign_max":
                steps.append({"how": "assign_max", "v": rng.choice(LIMITS)})
            elif how == "assign_layers":
                steps.append({"how": "assign_layers", "v": rng.randrange(0, 4)})
            else:
                tm, te = rng.choice(ENVS)
                steps.append({"how": "detect", "tmux": tm, "term": te})
        nobj = 1 + sum(1 for st in steps if st["how"] == "clone")
        yield term_case(f, rng.randrange(0, 4), rng.choice(LIMITS), steps, rng.choice([-1, -1, -1, 0, rng.randrange(0, nobj)]))
    # (8) limits far above 4096 (and the default) with payloads of several limits: budgets around 4096 base64 characters and
    #     around 4096 raw bytes, 5.5 kB ... 70 kB; lengths around multiples of the chunk size and around 4096 / 8192
    for mx_ in ["b4096", "r4096", 4097, 5000, 5500, 5600, 6000, 8192, 12000, 16384, 40000, 65536, 70000, None]:
        big = isinstance(mx_, int) and mx_ >= 40000
        for n in (rng.sample(range(0, 4), 1 if big else 2) if quick else range(0, 5)):
            f = rng.choice(HEADERS)
            hl = hdr_len(ctx, f)
            for delta in ([-1, 0, 1] if isinstance(mx_, str) else [0]):
                mx = tl[n] + hl + 4 + 4096 + delta if mx_ == "b4096" else tl[n] + hl + 4 + 5464 + 4 * delta if mx_ == "r4096" else mx_
                mp = ((4096 if mx is None else mx) - tl[n] - hl - 4) // 4 * 3
                lens = [mp - 1, mp, mp + 1, 2 * mp, 2 * mp + 1, 3 * mp + 2, 5 * mp // 2, 4096, 4097, 8192, 8193, 12289]
                if quick:
                    lens = [mp + 1, 2 * mp + 1] + rng.sample(lens, 1 if big else 3)
                for L in sorted(set(lens)):
                    yield {"k": "send", "cmd": {"type": "T", "f": f, "data": {"len": L, "pat": rng.choice(pats), "seed": rng.randrange(1000)}},
                           "layers": n, "max": mx, "stream": rng.choice(streams), "via": rng.choice(["send", "send", "terminal"]),
                           "callback": rng.random() < 0.5}
    # (5) split() as a public method
    for f in HEADERS[:3] + HEADERS[4:6]:
        for nn in [1, 2, 3, 4, 6, 30]:
            for L in sorted(set([0, 1, nn - 1, nn, nn + 1, 2 * nn, 2 * nn + 1, 3 * nn - 1, 3 * nn, 7 * nn + 1])):
                if L >= 0:
                    yield {"k": "split", "cmd": {"type": "T", "f": f, "data": {"len": L, "pat": "rand", "seed": rng.randrange(1000)}},
                           "n": nn, "stream": rng.choice(streams)}
    # (6) exhaustive payload lengths 0 .. 3*chunk+5 for a few configurations (thorough: all layers)
    for n in ([0, 2] if quick else range(0, 5)):
        for f in (HEADERS[:2] if quick else HEADERS):
            hl = hdr_len(ctx, f)
            for extra in ([8, 12] if quick else [8, 9, 11, 12, 16, 20]):
                mx = tl[n] + hl + extra
                mp = (mx - tl[n] - hl - 4) // 4 * 3
                for L in range(0, 3 * mp + 6):
                    yield {"k": "send", "cmd": {"type": "T", "f": f, "data": {"len": L, "pat": "rand", "seed": L}},
                           "layers": n, "max": mx, "stream": "bytes", "via": "send", "callback": True}


def run(ctx: Ctx):
    ctx.rule = ("cases: 8 header shapes (incl. empty header, default medium, full header with placement on boundary values) x 0..4 "
                "tmux layers x limits from 0 through the first accepted limit (template+header+8) and above x payload lengths "
                "{0..7, k*chunk-1..k*chunk+2 for k=1..3, 3*chunk+5}; default limit with payloads up to 10 kB (thorough 100 kB); "
                "every medium x more in {None,False,True}; random headers from the presence lattice; split() directly; exhaustive "
                "lengths 0..3*chunk+5; payload as bytes / BytesIO positioned mid-stream / real file; via send() with and without "
                "callback and via GraphicsTerminal.send_command; terminal histories (constructed object, clone_with with every keyword "
                "argument, clones of clones, limit / layer count assigned before and after cloning, detect_tmux, the original after "
                "cloning) x limits {too small ... 4095, 4096, 4097 ... 9000, default} x 0..3 layers, judged against the limit and "
                "layer count the caller configured; SECOND-USE histories: objects that have already sent something (one-chunk / "
                "several-chunk / name transmission, put, delete) before they are cloned with another layer count or other options, "
                "reconfigured by assignment or detect_tmux, or used again after a clone of them was used; limits 4097 ... 70000 and budgets around 4096 base64 characters / 4096 raw bytes "
                "with payloads of 1..3 chunks and around 4096 / 8192 bytes. "
                "distinct = canonical JSON; non-trivial = error outcome or >= 2 chunks")
    c06.run_corpus(ctx, "C05", check_case)
    for c in cases(ctx):
        if ctx.time_left() < 0:
            ctx.count("skipped-over-budget")
            continue
        check_case(ctx, c)
        ctx.case(c, nontrivial=(getattr(ctx, "last_nchunks", 1) != 1))
    ctx.assumptions += ["payload streams are seekable and return min(n, remaining) bytes per read",
                        "integer header fields are natural numbers"]
    global _TMP
    if _TMP is not None:
        _TMP.cleanup()
        _TMP = None
