"""C05 — inline transmissions are chunked losslessly within the command size limit.

K: GraphicsCommand.send / TransmitCommand.split / GraphicsTerminal.send_command (bytes written to the
   command stream, per-chunk callback sequence, ValueError) vs Tup.Model.Command.send through drv_cmd.
F: Tup.Spec.GfxParse.checkSend on the implementation's stream: split into top-level escape codes,
   size of each <= max (wrappers included), tmux-unwrap n times, parse, base64-decode, concatenate = data,
   m flags / padding of non-last chunks, keys of first and continuation chunks; error => nothing written.
"""
from __future__ import annotations

import io
import os
import tempfile

from .common import Ctx, hx
from . import c06
from .c06 import build, tokens, data_bytes, is_inline, gcmod, enum_names

DRIVERS = ["drv_cmd"]
EVIDENCE = dict(
    level="proof",
    trusted=[
        "BinaryIO.read(n) returns exactly min(n, remaining) bytes on seekable streams (BytesIO and regular files are exercised)",
        "Python bytes %-formatting, str(int), base64.b64encode (mirrored by Tup.Basic/Tup.Base64; compared on every case)",
        "Spec.GfxParse / Spec.TmuxUnwrap are transcriptions of the kitty graphics protocol and of tmux's pass-through convention",
    ],
)

_TMP = None


def _tmpdir():
    global _TMP
    if _TMP is None:
        _TMP = tempfile.TemporaryDirectory(prefix="vc05")
    return _TMP.name


def real_template(n: int) -> bytes:
    """The template the real GraphicsTerminal builds for n tmux layers (no tty is opened)."""
    from tupimage import graphics_terminal as gt
    t = gt.GraphicsTerminal(out_command=io.BytesIO(), out_display=io.BytesIO(), in_response=io.BytesIO(), in_userinput=io.BytesIO(),
                            num_tmux_layers=n)
    return t.get_graphics_command_template()


class Rec(io.BytesIO):
    """command stream that also records the individual writes"""

    def __init__(self):
        super().__init__()
        self.writes = []

    def write(self, b):
        self.writes.append(bytes(b))
        return super().write(b)


def make_data(kind: str, data: bytes):
    """bytes | BytesIO (position not at 0) | real file opened 'rb'"""
    if kind == "bytes":
        return data, None
    if kind == "bytesio":
        s = io.BytesIO(data)
        s.seek(len(data) // 2)
        return s, None
    if kind == "file":
        fd, path = tempfile.mkstemp(dir=_tmpdir())
        os.write(fd, data)
        os.close(fd)
        f = open(path, "rb")
        f.read(min(3, len(data)))
        return f, (f, path)
    raise ValueError(kind)


def run_send(c: dict):
    """Runs the real code for a 'send' case. Returns (raised, stream bytes, callback escapes, writes)."""
    gc = gcmod()
    desc = c["cmd"]
    n = c["layers"]
    data = data_bytes(desc.get("data"))
    dobj, cleanup = make_data(c.get("stream", "bytes"), data)
    obj = build(desc, data_override=dobj)
    tmpl = real_template(n)
    raised = False
    cb = []
    run_send.unexpected = None
    try:
        if c.get("via", "send") == "terminal":
            from tupimage import graphics_terminal as gt
            out = Rec()
            term = gt.GraphicsTerminal(out_command=out, out_display=io.BytesIO(), in_response=io.BytesIO(),
                                       in_userinput=io.BytesIO(), max_command_size=c["max"], num_tmux_layers=n)
            try:
                term.send_command(obj)
            except ValueError:
                raised = True
            except Exception as e:  # not an outcome the model knows: reported as a broken correspondence
                raised = True
                run_send.unexpected = repr(e)[:200]
            cb = None
        else:
            out = Rec()
            try:
                obj.send(out, tmpl, max_size=c["max"], callback=(lambda x: cb.append(x.to_bytes(tmpl))) if c.get("callback", True) else None)
            except ValueError:
                raised = True
            except Exception as e:
                raised = True
                run_send.unexpected = repr(e)[:200]
            if not c.get("callback", True):
                cb = None
    finally:
        if cleanup:
            cleanup[0].close()
            os.unlink(cleanup[1])
    return raised, out.getvalue(), cb, out.writes, tmpl


def check_case(ctx: Ctx, c: dict):
    gc = gcmod()
    d = ctx.driver("drv_cmd")
    k = c["k"]
    ctx.count("kind:" + k)
    if k == "send":
        desc = c["cmd"]
        n = c["layers"]
        data = data_bytes(desc.get("data"))
        tok = tokens(desc, data)
        mx = "none" if c["max"] is None else str(c["max"])
        raised, stream, cb, writes, tmpl = run_send(c)
        model = d.ask(f"send {n} {mx} {tok}")
        if run_send.unexpected:
            ctx.mismatch("send raised something other than ValueError", c, run_send.unexpected, model[:40])
        ctx.eq("template", {"k": "template", "layers": n}, hx(tmpl), d.ask(f"template {n}"))
        if model == "err":
            ctx.eq("send raises ValueError", c, raised, True)
            ctx.eq("bytes written before the error", c, hx(stream), "-")
            nchunks = 0
        else:
            ctx.eq("send raises ValueError", c, raised, False)
            mlist = model.split(" ")
            if not raised:
                ctx.eq("command stream", c, hx(stream), "".join(mlist))
                if cb is not None:
                    ctx.eq("callback sequence", c, [hx(x) for x in cb], mlist)
            nchunks = len(mlist)
        inline = is_inline(desc)
        ctx.count("medium:" + str((desc.get("f") or {}).get("medium")))
        ctx.count("layers:%d" % n)
        ctx.count("stream:" + c.get("stream", "bytes"))
        ctx.count("via:" + c.get("via", "send"))
        ctx.count("more:" + str((desc.get("f") or {}).get("more")))
        ctx.count("outcome:" + ("error" if model == "err" else "chunks=%s" % (nchunks if nchunks < 4 else "4+")))
        ctx.count("payload-len:" + ("0" if not data else "1-9" if len(data) < 10 else "10-99" if len(data) < 100 else "100-999" if len(data) < 1000 else "1000+"))
        ctx.last_nchunks = nchunks
        # F
        if inline:
            r = d.ask(f"spec_checksend {n} {mx} {1 if raised else 0} {hx(stream)} {tok}")
            if r != "ok":
                ctx.violation("inline transmission breaks the chunking property: " + r, c,
                              {"reason": r, "max": c["max"], "escape_sizes": _sizes(d, stream), "data_len": len(data)}, key="c05-" + r)
        else:
            # other media: a single unsplit command (only C06's well-formedness applies)
            if raised:
                pass
            else:
                r = d.ask(f"spec_checkcmd {n} {hx(stream)} {tok}")
                if r != "ok":
                    ctx.violation("non-inline transmission is not one well-formed command", c, {"reason": r}, key="c05-other-" + r)
    elif k == "split":
        desc = c["cmd"]
        data = data_bytes(desc.get("data"))
        dobj, cleanup = make_data(c.get("stream", "bytes"), data)
        obj = build(desc, data_override=dobj)
        try:
            parts = list(obj.split(max_payload_size=c["n"]))
            impl = [hx(p.content_to_bytes()) for p in parts]
            kinds = [type(p).__name__ for p in parts]
        finally:
            if cleanup:
                cleanup[0].close()
                os.unlink(cleanup[1])
        model = d.ask(f"split {c['n']} {tokens(desc, data)}").split(" ")
        ctx.eq("split", c, impl, model)
        if kinds[0] != "TransmitCommand" or any(x != "MoreDataCommand" for x in kinds[1:]):
            ctx.mismatch("split command types", c, kinds, "TransmitCommand, MoreDataCommand*")
        ctx.last_nchunks = len(impl)
    else:
        raise ValueError(k)


def _sizes(d, stream):
    r = d.ask(f"spec_splitstream {hx(stream)}")
    if r in ("none", "empty", "bad"):
        return r
    return [len(x) // 2 for x in r.split(" ")][:8]


# ---------------------------------------------------------------------------------------
HEADERS = [
    {"image_id": 5, "medium": "DIRECT"},
    {"image_id": 5},                                             # protocol default medium (= direct)
    {},                                                          # nothing but the action
    {"omit_action": True},                                       # empty header
    {"image_number": 2**32 - 1, "medium": "DIRECT", "more": True},
    {"image_id": 1, "image_number": 7, "more": False, "format": "PNG", "query": True},
    {"image_id": 2**32 - 1, "image_number": 2**32 - 1, "medium": "DIRECT", "size": 2**24 - 1, "offset": 0, "quiet": "QUIET_ALWAYS",
     "format": "RGBA", "compression": "ZLIB", "pix_width": 1, "pix_height": 2**32 - 1,
     "placement": {"placement_id": 2**24 - 1, "virtual": True, "rows": 0, "cols": 1, "do_not_move_cursor": False, "src_x": 0,
                   "src_y": 1, "src_w": 2**32 - 1, "src_h": 2**24 - 1}},
    {"image_id": 77, "medium": None, "more": True, "placement": {}},
]


def hdr_len(ctx, f):
    return len(build({"type": "T", "f": f}).header_to_bytes())


def cases(ctx: Ctx):
    rng = ctx.rng
    quick = ctx.quick
    pats = ["rand", "x", "esc", "ff", "zero"]
    tl = {n: len(real_template(n)) for n in range(0, 5)}
    streams = ["bytes", "bytesio", "file"]
    # (1) limits around the minimum accepted one x payload lengths around multiples of 3 and of the chunk size
    for hi, f in enumerate(HEADERS):
        hl = hdr_len(ctx, f)
        for n in range(0, 5):
            thresh = tl[n] + hl + 8          # first accepted limit for this header/template
            maxes = [0, 1, tl[n], thresh - 9, thresh - 5] + list(range(thresh - 4, thresh + 9)) + [thresh + 11, thresh + 12, thresh + 16, thresh + 41, thresh + 400]
            if quick:
                maxes = [m for m in maxes if m in (0, thresh - 5, thresh + 400) or thresh - 2 <= m <= thresh + 8 or rng.random() < 0.4]
            for mx in maxes:
                if mx < 0:
                    continue
                mp = max(0, (mx - tl[n] - hl - 4) // 4 * 3)
                base = [0, 1, 2, 3, 4, 5, 6, 7]
                if mp >= 1:
                    for mult in (1, 2, 3):
                        base += [mp * mult - 1, mp * mult, mp * mult + 1, mp * mult + 2]
                    base += [3 * mp + 5]
                lens = sorted(set(x for x in base if x >= 0))
                if quick:
                    lens = [x for x in lens if rng.random() < (0.35 if n in (1, 3) or hi >= 4 else 0.6)]
                if mp < 1:
                    lens = rng.sample([0, 1, 3, 10], 2)
                for L in lens:
                    yield {"k": "send", "cmd": {"type": "T", "f": f, "data": {"len": L, "pat": rng.choice(pats), "seed": rng.randrange(1000)}},
                           "layers": n, "max": mx, "stream": rng.choice(streams) if rng.random() < 0.3 else "bytes",
                           "via": "terminal" if rng.random() < 0.15 else "send", "callback": rng.random() < 0.8}
    # (2) default limit (max_size=None -> select.PIPE_BUF) and large payloads, all stream kinds
    for n in range(0, 5):
        for L in [0, 1, 3000, 3050, 3060, 3070, 6100, 10000] + ([] if quick else [40000, 100000]):
            for st in streams:
                f = rng.choice(HEADERS)
                yield {"k": "send", "cmd": {"type": "T", "f": f, "data": {"len": L + rng.randrange(0, 3), "pat": rng.choice(pats), "seed": rng.randrange(1000)}},
                       "layers": n, "max": rng.choice([None, None, 4096, 1000, 100, 257]), "stream": st,
                       "via": rng.choice(["send", "terminal"]), "callback": True}
    # (3) non-direct media are passed through unsplit; more in {None, False, True}; medium None/DIRECT
    for m in [None] + enum_names("medium"):
        for more in [None, False, True]:
            for L in [0, 5, 60, 600]:
                for mx in [0, 30, 60, 100, None]:
                    n = rng.randrange(0, 4)
                    data = {"text": "/tmp/some/file-%d.png" % L} if m in ("FILE", "TEMP_FILE", "SHARED_MEMORY") and L == 5 else \
                        {"len": L, "pat": rng.choice(pats), "seed": rng.randrange(1000)}
                    yield {"k": "send", "cmd": {"type": "T", "f": {"image_id": 9, "medium": m, "more": more}, "data": data},
                           "layers": n, "max": mx, "stream": rng.choice(streams), "via": rng.choice(["send", "terminal"]), "callback": True}
    # (4) random headers from the presence lattice
    ts = c06.t_slots()
    for _ in range(6000 if quick else 100000):
        present = [s for s in ts if rng.random() < rng.choice([0.1, 0.4, 0.8])]
        desc = c06.t_desc(rng, present)
        if rng.random() < 0.8 and desc["f"].get("medium") not in (None, "DIRECT"):
            desc["f"]["medium"] = rng.choice([None, "DIRECT"])
        n = rng.randrange(0, 5)
        hl = hdr_len(ctx, desc["f"])
        thresh = tl[n] + hl + 8
        mx = rng.choice([thresh - 1, thresh, thresh + 1, thresh + 3, thresh + 4, thresh + rng.randrange(0, 60), thresh + rng.randrange(0, 600), None])
        mp = max(1, ((mx if mx is not None else 4096) - tl[n] - hl - 4) // 4 * 3)
        L = rng.choice([0, 1, 2, mp - 1, mp, mp + 1, 2 * mp, 2 * mp + 1, rng.randrange(0, 4 * mp + 2), rng.randrange(0, 12 * mp + 2)])
        L = min(max(L, 0), 20000)
        desc["data"] = {"len": L, "pat": rng.choice(pats), "seed": rng.randrange(1000)}
        yield {"k": "send", "cmd": desc, "layers": n, "max": mx, "stream": rng.choice(streams) if rng.random() < 0.3 else "bytes",
               "via": "terminal" if rng.random() < 0.2 else "send", "callback": rng.random() < 0.7}
    # (5) split() as a public method
    for f in HEADERS[:3] + HEADERS[4:6]:
        for nn in [1, 2, 3, 4, 6, 30]:
            for L in sorted(set([0, 1, nn - 1, nn, nn + 1, 2 * nn, 2 * nn + 1, 3 * nn - 1, 3 * nn, 7 * nn + 1])):
                if L >= 0:
                    yield {"k": "split", "cmd": {"type": "T", "f": f, "data": {"len": L, "pat": "rand", "seed": rng.randrange(1000)}},
                           "n": nn, "stream": rng.choice(streams)}
    # (6) exhaustive payload lengths 0 .. 3*chunk+5 for a few configurations (thorough: all layers)
    for n in ([0, 2] if quick else range(0, 5)):
        for f in (HEADERS[:2] if quick else HEADERS):
            hl = hdr_len(ctx, f)
            for extra in ([8, 12] if quick else [8, 9, 11, 12, 16, 20]):
                mx = tl[n] + hl + extra
                mp = (mx - tl[n] - hl - 4) // 4 * 3
                for L in range(0, 3 * mp + 6):
                    yield {"k": "send", "cmd": {"type": "T", "f": f, "data": {"len": L, "pat": "rand", "seed": L}},
                           "layers": n, "max": mx, "stream": "bytes", "via": "send", "callback": True}


def run(ctx: Ctx):
    ctx.rule = ("cases: 8 header shapes (incl. empty header, default medium, full header with placement on boundary values) x 0..4 "
                "tmux layers x limits from 0 through the first accepted limit (template+header+8) and above x payload lengths "
                "{0..7, k*chunk-1..k*chunk+2 for k=1..3, 3*chunk+5}; default limit with payloads up to 10 kB (thorough 100 kB); "
                "every medium x more in {None,False,True}; random headers from the presence lattice; split() directly; exhaustive "
                "lengths 0..3*chunk+5; payload as bytes / BytesIO positioned mid-stream / real file; via send() with and without "
                "callback and via GraphicsTerminal.send_command. distinct = canonical JSON; non-trivial = error outcome or >= 2 chunks")
    c06.run_corpus(ctx, "C05", check_case)
    for c in cases(ctx):
        if ctx.time_left() < 0:
            ctx.count("skipped-over-budget")
            continue
        check_case(ctx, c)
        ctx.case(c, nontrivial=(getattr(ctx, "last_nchunks", 1) != 1))
    ctx.assumptions += ["payload streams are seekable and return min(n, remaining) bytes per read",
                        "integer header fields are natural numbers"]
    global _TMP
    if _TMP is not None:
        _TMP.cleanup()
        _TMP = None
