"""C03 — concurrent processes sharing a session database allocate IDs atomically.

K/F part 1 (deterministic): several IDManager "processes" (threads with their own connections,
harness/sched.py) are interleaved at transaction-boundary / autocommit-statement granularity —
exhaustively (stateless DFS over schedules) for small programs, randomly for longer ones.
F judges directly by the property: no locking/constraint error; different descriptions never
share an ID while free IDs exist; concurrent requests for one description end with ONE id bound
to it; and (linearizability) results + final database equal those of SOME one-at-a-time order of
the same requests, decided by the sequential Lean model (drv_db) when available.
Part 2 (thorough, supporting only): N real OS processes started on a barrier against a fresh file.
"""
from __future__ import annotations

import itertools
import json
import os
import shutil
import sqlite3
import subprocess
import sys
import tempfile
from pathlib import Path

from .common import Ctx
from . import sched as S
from .sched import Scheduler

DRIVERS = ["drv_db", "drv_e2e"]     # drv_e2e serves lean/Tup/Drv/Txn.lean (`txn blocks …`)
EVIDENCE = dict(
    level="proof",
    trusted=[
        "sqlite: BEGIN IMMEDIATE blocks are serialisable, autocommit statements atomic (the decomposition of each operation into such blocks is what the check observes)",
        "OS/sqlite lock contention and first-open races are only observed (thorough tier stress), never proved",
    ],
)

SPACES = {"8bit": (8, False), "16bit": (8, True), "24bit": (24, False), "32bit": (24, True), "8bit_diacritic": (0, True)}


def _im():
    from tupimage import id_manager as im
    return im


def apply_op(m, op):
    im = _im()
    k = op[0]
    if k == "get":
        _, desc, space, b, e = op
        return m.get_id(desc, im.IDSpace(*SPACES[space]), subspace=im.IDSubspace(b, e))
    if k == "set":
        return m.set_id(op[1], op[2])
    if k == "del":
        return m.del_id(op[1])
    if k == "cleanup":
        _, space, b, e, mx = op
        return m.cleanup(im.IDSpace(*SPACES[space]), im.IDSubspace(b, e), max_ids=mx)
    if k == "mark":
        return m.mark_uploaded(op[1], op[2], size=op[3])
    if k == "cleanup_uploads":
        return m.cleanup_uploads(op[1])
    if k == "needs":
        if len(op) > 3:
            return m.needs_uploading(op[1], op[2], max_uploads_ago=op[3])
        return m.needs_uploading(op[1], op[2])
    if k == "upinfo":
        u = m.get_upload_info(op[1], op[2])
        return None if u is None else [u.description, u.size, u.bytes_ago, u.uploads_ago]
    if k == "count":
        _, space, b, e = op
        return m.count(im.IDSpace(*SPACES[space]), im.IDSubspace(b, e))
    if k == "info":
        i = m.get_info(op[1])
        return None if i is None else i.description
    raise ValueError(k)


def dump(dbfile):
    con = sqlite3.connect(dbfile)
    try:
        out = {}
        for name in ("ids_8bit", "ids_16bit", "ids_24bit", "ids_32bit", "ids_8bit_diacritic"):
            out[name] = sorted(con.execute(f"SELECT id, description, atime FROM {name}").fetchall())
        out["upload"] = sorted(con.execute("SELECT id, terminal, description, size, upload_time FROM upload").fetchall())
        return out
    finally:
        con.close()


# ---------------------------------------------------------------------------------------------
# K "block structure": the decomposition of every public call into atomic blocks, on which the theorems of
# Props/C03.lean and Props/C12.lean rest, compared with the SQL trace of the real call (lean/Tup/Drv/Txn.lean,
# served by drv_e2e).  Shared with harness/c12.py.
# ---------------------------------------------------------------------------------------------
NS_ORDER = ["ids_8bit_diacritic", "ids_16bit", "ids_32bit", "ids_8bit", "ids_24bit"]     # Space.all / IDSpace.all_values()
WRITE_VERBS = {"INSERT", "UPDATE", "DELETE", "REPLACE", "CREATE", "DROP", "ALTER"}
BLOCK_DRIVER = "drv_e2e"


class BlockRecorder:
    """Trace-callback companion for ONE operation on `conn`: the statements (whitespace-normalised, parameters
    expanded by sqlite) and a dump of all six tables, read through a second connection, at every point where the
    connection is outside a transaction (= before every atomic block) and once more at the end."""

    def __init__(self, conn, dbfile):
        self.conn, self.dbfile = conn, dbfile
        self.stmts, self.snaps, self.starts = [], [], []

    def before_statement(self, sql):
        if not self.conn.in_transaction:
            self.snaps.append(dump(self.dbfile))
            self.starts.append(len(self.stmts))
        self.stmts.append(" ".join(sql.split()))

    def finish(self):
        self.snaps.append(dump(self.dbfile))
        return describe_blocks(self.stmts, self.starts, self.snaps)


def _verb(stmt):
    return stmt.split(None, 1)[0].upper() if stmt.strip() else ""


def describe_blocks(stmts, starts, snaps):
    """[{kind, changed, gone, stmts}] — one entry per atomic block of the real call.
    kind: txn-write (BEGIN IMMEDIATE/EXCLUSIVE … COMMIT) | txn-read (BEGIN [DEFERRED] … COMMIT without a writing
    statement) | txn-deferred-write (a deferred transaction that writes) | stmt-write | stmt-read (autocommit);
    a transaction that ends otherwise than by COMMIT/END gets the suffix !rollback / !open.  The number of
    statements inside a transaction is deliberately not part of the description."""
    out = []
    for k, a in enumerate(starts):
        b = stmts[a: starts[k + 1] if k + 1 < len(starts) else len(stmts)]
        head = b[0].upper()
        if _verb(b[0]) == "BEGIN":
            writes = any(_verb(x) in WRITE_VERBS for x in b[1:])
            if "IMMEDIATE" in head or "EXCLUSIVE" in head:
                kind = "txn-write"
            else:
                kind = "txn-deferred-write" if writes else "txn-read"
            last = _verb(b[-1])
            if last == "ROLLBACK":
                kind += "!rollback"
            elif last not in ("COMMIT", "END") or len(b) < 2:
                kind += "!open"
            if sum(1 for x in b if _verb(x) == "BEGIN") != 1 or sum(1 for x in b if _verb(x) in ("COMMIT", "END", "ROLLBACK")) > 1:
                kind += "!nested"
        else:
            v = _verb(b[0])
            kind = "stmt-write" if v in WRITE_VERBS else "stmt-read" if v == "SELECT" else "stmt-other!" + v
            if len(b) != 1:
                kind += "!run-on"        # statements outside a transaction are blocks of their own; cannot happen
        pre, post = snaps[k], snaps[k + 1]
        gone = {t: sorted({r[0] for r in pre[t]} - {r[0] for r in post[t]}) for t in NS_ORDER}
        out.append(dict(kind=kind, changed=pre != post, gone=gone, stmts=[" ".join(x.split(None, 2)[:2]) for x in b]))
    return out


def enc_db(d):
    """a dump of c03.dump / c12.full_dump (ISO timestamps) in the wire format of lean/Tup/Drv/Db.lean (µs since datetime.min)"""
    from . import dbutil as D
    ids = [[(i, desc, D.iso_to_us(at)) for (i, desc, at) in d[t]] for t in NS_ORDER]
    up = sorted(((i, term, desc, size, D.iso_to_us(tm)) for (i, term, desc, size, tm) in d["upload"]), key=lambda r: (r[0], r[1]))
    return D.enc_dump({"ids": ids, "up": up})


def op_wire(op, *, result, blocks, stmts, pre, post, now_us):
    """The model request for `op`, with the implementation's choices: the id it returned, the candidates it sampled
    (SQL trace), the rows its clean-ups removed (table dumps around each block), the clock value it read."""
    from . import dbutil as D
    k = op[0]

    def sp(name):
        cb, u3 = SPACES[name]
        return f"{cb} {1 if u3 else 0}"

    if k == "get":
        _, desc, space, b, e = op
        rounds, _n, _b = D.get_id_trace_choices(stmts)
        table = NS_ORDER[[(0, True), (8, True), (24, True), (8, False), (24, False)].index(SPACES[space])]
        removed = [bl["gone"][table] for bl in blocks if len(bl["stmts"]) == 1 and bl["stmts"][0].upper().startswith("DELETE")]
        pick = result if isinstance(result, int) and not isinstance(result, bool) else 0
        return f"get {sp(space)} {b} {e} {D.hxs(desc)} {now_us} {pick} {D._enc_rounds(rounds)} {D._enc_rounds(removed)}"
    if k == "set":
        return f"set {op[1]} {D.hxs(op[2])} {now_us}"
    if k == "del":
        return f"del {op[1]}"
    if k == "cleanup":
        _, space, b, e, mx = op
        table = NS_ORDER[[(0, True), (8, True), (24, True), (8, False), (24, False)].index(SPACES[space])]
        gone = sorted({r[0] for r in pre[table]} - {r[0] for r in post[table]})
        return f"cleanup {sp(space)} {b} {e} {mx} {','.join(map(str, gone)) or '-'}"
    if k == "mark":
        return f"mark {op[1]} {D.hxs(op[2])} {op[3]} {now_us}"
    if k == "cleanup_uploads":
        kept = ",".join(f"{r[0]}:{D.hxs(r[1])}" for r in sorted(post["upload"])) or "-"
        return f"cleanup_uploads {op[1]} {kept}"
    if k == "needs":
        mu = op[3] if len(op) > 3 else 1024
        return f"needs {op[1]} {D.hxs(op[2])} {mu} {20 * 2 ** 20} {3600 * 1000000} {now_us}"
    if k == "upinfo":
        return f"upinfo {op[1]} {D.hxs(op[2])}"
    if k == "info":
        return f"info {op[1]}"
    if k == "count":
        _, space, b, e = op
        return f"count {sp(space)} {b} {e}"
    return None


def _result_kind(op, r):
    """the result of the real call in the vocabulary of Drv/Txn.lean's reply (None: not compared)"""
    k = op[0]
    if r == "RuntimeError" or (isinstance(r, (tuple, list)) and r and r[0] == "exc" and r[1] == "RuntimeError"):
        return "noid" if k == "get" else None
    if isinstance(r, (tuple, list)) and r and r[0] == "exc":
        return None
    if k == "get":
        return f"id {r}"
    if k in ("set", "del", "cleanup", "mark", "cleanup_uploads"):
        return "unit"
    if k == "needs":
        return f"bool {1 if r else 0}"
    if k == "count":
        return f"nat {r}"
    return None


def compare_block_structure(ctx: Ctx, case, *, op, max_ids, pre, post, result, blocks, stmts, now_us):
    """K: block-kind sequence (+ whether each block changed the database) of the real call vs the model's `lone`
    run of the same call on the same database with the implementation's choices."""
    if isinstance(max_ids, bool) or not isinstance(max_ids, int) or max_ids < 0:
        ctx.count("K-blocks:skipped:max_ids-not-a-natural-number")
        return
    wire = op_wire(op, result=result, blocks=blocks, stmts=stmts, pre=pre, post=post, now_us=now_us)
    if wire is None or (op[0] in ("set", "del", "mark", "needs", "upinfo", "info") and not (isinstance(op[1], int) and op[1] >= 0)):
        ctx.count("K-blocks:skipped:op-not-expressible")
        return
    reply = ctx.driver(BLOCK_DRIVER).ask(f"txn blocks {max_ids} {enc_db(pre)} {wire}")
    toks = reply.split(" ")
    if toks[0] != "ok":
        ctx.mismatch("block structure: driver rejected the request", case, {"request": wire[:300]}, reply[:300])
        return
    model_blocks = [] if toks[1] == "-" else toks[1].split(",")
    model_result = " ".join(toks[2:])
    real = [f"{b['kind']}:{1 if b['changed'] else 0}" for b in blocks]
    detail = {"op": op, "statements": [b["stmts"] for b in blocks]}
    if "badChoice" in model_result:
        ctx.mismatch("block structure: the model rejects the implementation's choices", case, dict(detail, blocks=real), model_result)
        return
    if any(m.endswith(":raised") for m in model_blocks) or model_result.startswith(("raised", "invalidArgs")):
        # the Python raises before / inside the block (from_id, IDSpace(...)): how far the SQL got is not modelled
        ctx.count("K-blocks:skipped:model-call-raises")
        return
    rk = _result_kind(op, result)
    if rk == "noid" and model_result.startswith("noid") and real and real[-1] == "stmt-read:0" and len(real) == len(model_blocks) + 1:
        # `raise RuntimeError(f"… row count: {self.count(...)} …")`: one autocommit read for the text of the message
        real = real[:-1]
        ctx.count("K-blocks:exhausted-message-count-read")
    ctx.count("K-blocks:compared")
    ctx.count("K-blocks:shape:" + "+".join(m.split(":")[0] for m in model_blocks))
    if real != model_blocks:
        ctx.mismatch("block structure", case, dict(detail, blocks=real), model_blocks)
        return
    if rk is not None:
        mk = " ".join(model_result.split(" ")[:2]) if model_result.startswith(("id ", "bool ", "nat ")) else model_result.split(" ")[0]
        if mk != rk:
            ctx.mismatch("block structure: result of the lone run", case, dict(detail, result=rk), model_result)


class _RecordingClock:
    """wraps the FakeDateTime installed by sched.install_fakes: same values, but remembers them"""

    def __init__(self):
        im = _im()
        self.log = log = []
        base = im.datetime

        class Rec(base):
            @classmethod
            def now(cls, tz=None):
                v = base.now(tz)
                log.append(v)
                return v

        self._saved = base
        im.datetime = Rec

    def first_us(self):
        from . import dbutil as D
        return D.to_us(self.log[0]) if self.log else 0

    def uninstall(self):
        _im().datetime = self._saved


def _prefill(dbfile, c):
    im = _im()
    m = im.IDManager(dbfile, max_ids_per_subspace=c.get("max_ids", 1024))
    for j, (i, desc) in enumerate(c.get("prefill", [])):
        m.set_id(i, desc, atime=S.BASE - S._dt.timedelta(seconds=1000 - j))
    for j, (i, term, size) in enumerate(c.get("preupload", [])):
        m.mark_uploaded(i, term, size=size, upload_time=S.BASE - S._dt.timedelta(seconds=500 - j))
    m.close()


def run_schedule(c, schedule):
    td = tempfile.mkdtemp(prefix="vc03")
    saved = S.install_fakes()
    try:
        dbfile = os.path.join(td, "s.db")
        if not c.get("fresh"):
            _prefill(dbfile, c)
        # "fresh": the simulated processes open a file that does not exist yet, and the statements of their
        # IDManager.__init__ (PRAGMAs, schema DDL) are switch points too
        s = Scheduler(dbfile, c["programs"], apply_op, max_ids=c.get("max_ids", 1024), seed=c.get("seed", 0),
                      trace_open=bool(c.get("fresh")))
        results = s.run(schedule)
        info = {"internal_cleanup": any(sql.lstrip().upper().startswith("DELETE") and p.ops[oi][0] == "get"
                                        for p in s.procs for (oi, sql) in p.statements if 0 <= oi < len(p.ops))}
        return results, dump(dbfile), (s.trace, info)
    finally:
        S.uninstall_fakes(saved)
        shutil.rmtree(td, ignore_errors=True)


def _res(r):
    if isinstance(r, tuple) and r and r[0] == "exc":
        return ["exc", r[1]]
    return r


def sequential_outcomes(c):
    """Outcomes (results per process, final tables) of EVERY one-at-a-time ordering of the same
    requests (program order kept per process), obtained by running the real code sequentially
    with the same per-operation clock values and random tapes."""
    key = json.dumps([c["programs"], c.get("prefill"), c.get("preupload"), c.get("max_ids"), c.get("seed", 0), c.get("fresh")])
    if key in _SEQ_CACHE:
        return _SEQ_CACHE[key]
    progs = c["programs"]
    n = len(progs)
    orders = set()

    def rec(pos, acc):
        if all(pos[i] == len(progs[i]) for i in range(n)):
            orders.add(tuple(acc))
            return
        for i in range(n):
            if pos[i] < len(progs[i]):
                pos[i] += 1
                acc.append(i)
                rec(pos, acc)
                acc.pop()
                pos[i] -= 1

    rec([0] * n, [])
    outs = {}
    im = _im()
    saved = S.install_fakes()
    try:
        for order in sorted(orders):
            td = tempfile.mkdtemp(prefix="vc03q")
            try:
                dbfile = os.path.join(td, "s.db")
                if not c.get("fresh"):
                    _prefill(dbfile, c)
                ms = [im.IDManager(dbfile, max_ids_per_subspace=c.get("max_ids", 1024)) for _ in range(n)]
                pos = [0] * n
                res = [[] for _ in range(n)]
                for pi in order:
                    j = pos[pi]
                    pos[pi] += 1
                    S.set_current(c.get("seed", 0), n, pi, j)
                    try:
                        r = apply_op(ms[pi], progs[pi][j])
                    except Exception as e:  # noqa
                        r = ("exc", type(e).__name__, str(e)[:200])
                    res[pi].append(_res(r))
                for m in ms:
                    m.close()
                outs[json.dumps([res, dump(dbfile)], sort_keys=True, default=list)] = list(order)
            finally:
                shutil.rmtree(td, ignore_errors=True)
    finally:
        S.uninstall_fakes(saved)
    _SEQ_CACHE[key] = outs
    return outs


_SEQ_CACHE: dict = {}


_BLK_DONE: set = set()


def block_structure_reference(ctx: Ctx, c, force=False):
    """K "block structure" on sequential reference runs: every operation of the scenario, run one at a time on the
    real code in two program-order-preserving orders (process 0 first / last process first), is compared block by
    block with the model's lone run on the database of that moment.  Once per scenario."""
    key = json.dumps([c["programs"], c.get("prefill"), c.get("preupload"), c.get("max_ids"), c.get("seed", 0), c.get("fresh")])
    if key in _BLK_DONE and not force:
        return
    _BLK_DONE.add(key)
    progs = c["programs"]
    n = len(progs)
    orders = [[pi for pi in range(n) for _ in progs[pi]], [pi for pi in reversed(range(n)) for _ in progs[pi]]]
    if orders[0] == orders[1]:
        orders = orders[:1]
    im = _im()
    saved = S.install_fakes()
    try:
        for order in orders:
            td = tempfile.mkdtemp(prefix="vc03b")
            try:
                dbfile = os.path.join(td, "s.db")
                if not c.get("fresh"):
                    _prefill(dbfile, c)
                ms = [im.IDManager(dbfile, max_ids_per_subspace=c.get("max_ids", 1024)) for _ in range(n)]
                pos = [0] * n
                for pi in order:
                    j = pos[pi]
                    pos[pi] += 1
                    op = progs[pi][j]
                    S.set_current(c.get("seed", 0), n, pi, j)
                    pre = dump(dbfile)
                    rec = BlockRecorder(ms[pi].conn, dbfile)
                    clock = _RecordingClock()
                    ms[pi].conn.set_trace_callback(rec.before_statement)
                    try:
                        r = apply_op(ms[pi], op)
                    except Exception as e:  # noqa
                        r = ("exc", type(e).__name__, str(e)[:200])
                    finally:
                        ms[pi].conn.set_trace_callback(None)
                        clock.uninstall()
                    blocks = rec.finish()
                    post = dump(dbfile)
                    compare_block_structure(ctx, dict(c, k="blocks", at=[pi, j]), op=op, max_ids=c.get("max_ids", 1024), pre=pre, post=post,
                                            result=r, blocks=blocks, stmts=rec.stmts, now_us=clock.first_us())
                for m in ms:
                    m.close()
            finally:
                shutil.rmtree(td, ignore_errors=True)
    finally:
        S.uninstall_fakes(saved)


def judge(ctx: Ctx, c, schedule, results, final, trace, trace_info=None):
    im = _im()
    case = dict(c, schedule=schedule, k="schedule")
    gets = {}
    for pi, rs in enumerate(results):
        for (op, r) in rs:
            if isinstance(r, tuple) and r and r[0] == "harness-exc":
                raise RuntimeError(r[1])
            if isinstance(r, tuple) and r and r[0] == "exc":
                if r[1] in ("OperationalError", "IntegrityError", "DatabaseError"):
                    ctx.violation("an operation failed with a locking/constraint error under interleaving", case,
                                  {"proc": pi, "op": op, "error": r}, key="sql-error:" + r[1])
                elif r[1] == "RuntimeError" and "unused id" in r[2]:
                    ctx.count("exhausted")
                else:
                    ctx.count("exc:" + r[1])
                continue
            if op and op[0] == "get":
                gets.setdefault((op[2], op[3], op[4]), []).append((op[1], r, pi))
    # (iv) linearizability: results + final database equal those of SOME one-at-a-time order
    nops = sum(len(p) for p in c["programs"])
    # A large-subspace get_id that ran out of samples performs internal clean-ups between its transactions; the
    # theorem (C03.linearizable) exposes them as separate public clean-up operations, so such a run is a sequential
    # run of requests *plus those clean-ups*, not necessarily of the requests alone: not judged by this oracle.
    internal_cleanup = bool(trace_info and trace_info.get("internal_cleanup"))
    if internal_cleanup:
        ctx.count("linearizability-not-judged:internal-cleanup")
    if c.get("linearize", True) and nops <= 6 and not internal_cleanup:
        outs = sequential_outcomes(c)
        mine = json.dumps([[[_res(r) for (_, r) in rs] for rs in results], final], sort_keys=True, default=list)
        ctx.count("linearizability-checked")
        if mine not in outs:
            ctx.violation("results and final database are not those of any one-at-a-time ordering of the same requests", case,
                          {"results": [[_res(r) for (_, r) in rs] for rs in results], "final": final,
                           "sequential_orders_tried": len(outs)}, key="not-linearizable:" + "+".join(sorted({op[0] for p in c["programs"] for op in p})))
    mutators = any(op[0] in ("del", "cleanup", "set") for prog in c["programs"] for op in prog)
    for (space, b, e), lst in gets.items():
        sp = im.IDSpace(*SPACES[space])
        size = sp.subspace_size(im.IDSubspace(b, e))
        table = "ids_" + str(sp)
        live_before = len([1 for (i, d_) in c.get("prefill", []) if sp.contains_and_in_subspace(i, im.IDSubspace(b, e))])
        descs = {d_ for (d_, _, _) in lst}
        pre_descs = {d_ for (i, d_) in c.get("prefill", []) if sp.contains_and_in_subspace(i, im.IDSubspace(b, e))}
        # (a) one description -> one id
        if not mutators:
            for d_ in descs:
                ids = {r for (dd, r, _) in lst if dd == d_}
                rows = [i for (i, dd, _t) in final[table] if dd == d_ and sp.contains_and_in_subspace(i, im.IDSubspace(b, e))]
                recycling_possible = live_before + len(descs - pre_descs) > min(size, c.get("max_ids", 1024)) if size <= 1024 else False
                # two rows of the requested subspace carrying one description can never arise one-at-a-time (the second
                # request would have found the first row), whatever was recycled; two different returned ids can — when the
                # first assignment was recycled in between — so that part is judged only where recycling is impossible
                if len(rows) > 1 or (len(ids) > 1 and not recycling_possible):
                    ctx.violation("concurrent requests for one description ended with more than one ID bound to it", case,
                                  {"description": d_, "returned": sorted(ids), "rows": rows}, key="same-description-two-ids")
        # (b) different descriptions never share an id while free ids exist
        if not mutators and live_before + len(descs - pre_descs) <= min(size, c.get("max_ids", 1024) if size <= 1024 else size):
            byid = {}
            for (d_, r, _) in lst:
                byid.setdefault(r, set()).add(d_)
            shared = {i: sorted(v) for i, v in byid.items() if len(v) > 1}
            lost = [d_ for d_ in descs if not any(dd == d_ for (_, dd, _t) in final[table])]
            if shared or lost:
                ctx.violation("two descriptions were given the same ID (or one lost its ID) while free IDs existed", case,
                              {"shared": shared, "lost": lost}, key="shared-id-while-free")


def explore(ctx: Ctx, c, limit):
    if ctx.quick:
        limit = min(limit, 150)
    """stateless DFS over schedules of the scenario; returns number of schedules run"""
    stack = [[]]
    seen = set()
    n = 0
    while stack and n < limit and ctx.time_left() > 0:
        prefix = stack.pop()
        results, final, (trace, tinfo) = run_schedule(c, prefix)
        n += 1
        actual = [p for (p, _) in trace]
        key = tuple(actual)
        if key in seen:
            continue
        seen.add(key)
        judge(ctx, c, actual, results, final, trace, tinfo)
        ctx.count("schedules")
        nprocs = len(c["programs"])
        # alternatives after the prefix: at step i choose another process that was still alive
        finished_at = {}
        for i, p in enumerate(actual):
            finished_at[p] = i
        for i in range(len(prefix), len(actual)):
            for q in range(nprocs):
                if q != actual[i] and finished_at.get(q, -1) >= i:
                    stack.append(actual[:i] + [q])
    return n


def check_case(ctx: Ctx, c: dict):
    if c["k"] == "blocks":
        return block_structure_reference(ctx, c, force=True)
    if c["k"] in ("explore", "schedule") and ctx.time_left() > 0:
        block_structure_reference(ctx, c)
    if c["k"] == "explore":
        n = explore(ctx, c, c.get("limit", 300))
        ctx.count("explored-scenarios")
        ctx.extra["schedules_run"] = ctx.extra.get("schedules_run", 0) + n
    elif c["k"] == "schedule":
        results, final, (trace, tinfo) = run_schedule(c, c["schedule"])
        judge(ctx, c, c["schedule"], results, final, trace, tinfo)
        ctx.count("schedules")
    elif c["k"] == "stress":
        stress(ctx, c)


# ---------------------------------------------------------------------------------------------
STRESS_WORKER = r"""
import sys, os, json, time
sys.path.insert(0, sys.argv[1])
from tupimage import id_manager as im
db, space, b, e, n, tag, barrier = sys.argv[2], sys.argv[3], int(sys.argv[4]), int(sys.argv[5]), int(sys.argv[6]), sys.argv[7], float(sys.argv[8])
while time.time() < barrier: pass
out = []
try:
    m = im.IDManager(db)
    sp = im.IDSpace.from_string(space)
    for i in range(n):
        d = f"shared-{i}" if i % 2 == 0 else f"{tag}-{i}"
        try:
            out.append([d, m.get_id(d, sp, subspace=im.IDSubspace(b, e))])
        except Exception as ex:
            out.append([d, "EXC:" + type(ex).__name__ + ":" + str(ex)[:100]])
except Exception as ex:
    out.append(["open", "EXC:" + type(ex).__name__ + ":" + str(ex)[:100]])
print(json.dumps(out))
"""


def stress(ctx: Ctx, c):
    import time
    from .common import REPO
    td = tempfile.mkdtemp(prefix="vc03s")
    try:
        db = os.path.join(td, "s.db")
        barrier = time.time() + 0.6
        procs = [subprocess.Popen([sys.executable, "-c", STRESS_WORKER, str(REPO), db, c["space"], str(c["b"]), str(c["e"]), str(c["n"]), f"p{i}", str(barrier)],
                                  stdout=subprocess.PIPE, stderr=subprocess.PIPE, text=True) for i in range(c["procs"])]
        outs = []
        for p in procs:
            o, e_ = p.communicate(timeout=300)
            outs.append(json.loads(o) if o.strip() else [["proc", "EXC:died:" + e_[-200:]]])
        byd = {}
        for o in outs:
            for d_, r in o:
                if isinstance(r, str) and r.startswith("EXC:"):
                    if "unused id" in r:
                        ctx.count("stress-exhausted")
                        continue
                    ctx.violation("an operation failed under real multi-process contention", c, {"desc": d_, "error": r}, key="stress-error")
                else:
                    byd.setdefault(d_, set()).add(r)
        dup = {d_: sorted(v) for d_, v in byd.items() if len(v) > 1}
        im = _im()
        sp = im.IDSpace.from_string(c["space"])
        size = sp.subspace_size(im.IDSubspace(c["b"], c["e"]))
        if dup and len(byd) <= size:
            ctx.violation("concurrent requests for one description ended with more than one ID bound to it (real processes)", c,
                          {"dups": dict(list(dup.items())[:3])}, key="same-description-two-ids")
        ctx.count("stress-runs")
    finally:
        shutil.rmtree(td, ignore_errors=True)


def cases(ctx: Ctx):
    rng = ctx.rng
    # tiny two-process programs, explored exhaustively: every pair of operation kinds on the same keys
    X16 = 16777217
    pairs = [
        ([["mark", 5, "T", 7]], [["mark", 5, "T", 9]], [[5, "A"]]),
        ([["mark", 5, "T", 7]], [["set", 5, "B"]], [[5, "A"]]),
        ([["mark", 5, "T", 7]], [["del", 5]], [[5, "A"]]),
        ([["mark", 5, "T", 7]], [["cleanup_uploads", 0]], [[5, "A"]]),
        ([["mark", 5, "T", 7], ["needs", 5, "T"]], [["set", 5, "B"], ["mark", 5, "T", 9]], [[5, "A"]]),
        ([["get", "X", "8bit", 5, 7]], [["set", 5, "B"]], []),
        ([["get", "X", "8bit", 5, 7]], [["del", 5]], [[5, "X"], [6, "Z"]]),
        ([["get", "X", "8bit", 5, 7]], [["cleanup", "8bit", 5, 7, 1]], [[5, "X"], [6, "Z"]]),
        ([["get", "X", "32bit", 0, 256]], [["get", "X", "32bit", 0, 256]], []),
        ([["get", "X", "24bit", 3, 4]], [["get", "Y", "24bit", 3, 4]], []),
        ([["get", "X", "8bit", 5, 7]], [["get", "X", "8bit", 5, 7]], []),
        ([["get", "X", "8bit", 5, 7]], [["get", "Y", "8bit", 5, 7]], [[5, "X"], [6, "Z"]]),
        ([["set", 5, "A"]], [["set", 5, "B"]], []),
        # multi-statement reads against a concurrent writer (snapshot consistency of the answers)
        ([["needs", 5, "T", 1]], [["mark", 5, "T", 3]], [[5, "A"]], [[5, "T", 2]]),
        ([["needs", 5, "T", 1]], [["set", 5, "B"], ["mark", 5, "T", 3]], [[5, "A"]], [[5, "T", 2]]),
        ([["upinfo", 5, "T"]], [["mark", 5, "T", 3], ["mark", 6, "T", 4]], [[5, "A"], [6, "B"]], [[5, "T", 2]]),
        ([["cleanup", "8bit", 5, 8, 1]], [["cleanup", "8bit", 5, 8, 2]], [[5, "A"], [6, "B"], [7, "C"]]),
    ]
    for entry in pairs:
        a, b, pre = entry[:3]
        c = dict(k="explore", programs=[a, b], prefill=pre, limit=120)
        if len(entry) > 3:
            c["preupload"] = entry[3]
        yield c
    yield dict(k="explore", programs=[[["mark", 5, "T", 7]], [["mark", 5, "T", 9]], [["set", 5, "B"]]], prefill=[[5, "A"]], limit=200)
    # a "large" subspace (size > max_ids) that is completely full: every sample collides, the request cleans up and retries
    yield dict(k="explore", max_ids=2, programs=[[["get", "X", "8bit", 5, 8]], [["get", "X", "8bit", 5, 8]]],
               prefill=[[5, "A"], [6, "B"], [7, "C"]], limit=300)
    yield dict(k="explore", max_ids=1, programs=[[["get", "X", "8bit", 5, 7]], [["get", "X", "8bit", 5, 7]], [["get", "Y", "8bit", 5, 7]]],
               prefill=[[5, "A"], [6, "B"]], limit=300)
    # exhaustive exploration of small programs
    yield dict(k="explore", programs=[[["get", "X", "32bit", 0, 256]], [["get", "X", "32bit", 0, 256]]], limit=400)
    yield dict(k="explore", programs=[[["get", "X", "24bit", 3, 4]], [["get", "X", "24bit", 3, 4]], [["get", "Y", "24bit", 3, 4]]], limit=400)
    yield dict(k="explore", programs=[[["get", "X", "8bit", 5, 7]], [["get", "Y", "8bit", 5, 7]]], limit=300)
    yield dict(k="explore", programs=[[["get", "X", "8bit", 5, 7]], [["get", "X", "8bit", 5, 7]]], limit=300)
    yield dict(k="explore", programs=[[["get", "X", "8bit", 5, 8]], [["get", "Y", "8bit", 5, 8]], [["get", "X", "8bit", 5, 8]]], prefill=[[5, "P"]], limit=400)
    # completely full enumerable subspace: a hit on the oldest row races with a recycling request
    yield dict(k="explore", programs=[[["get", "X", "8bit", 5, 7]], [["get", "Y", "8bit", 5, 7]]], prefill=[[5, "X"], [6, "Z"]], limit=300)
    yield dict(k="explore", programs=[[["get", "X", "8bit", 5, 7]], [["get", "Y", "8bit", 5, 7]], [["get", "Z", "8bit", 5, 7]]], prefill=[[5, "X"], [6, "Z"]], limit=400)
    yield dict(k="explore", programs=[[["get", "X", "16bit", 1, 2], ["info", 16777217]], [["del", 16777217], ["get", "Y", "16bit", 1, 2]]], prefill=[[16777217, "X"]], limit=300)
    yield dict(k="explore", programs=[[["get", "X", "16bit", 1, 2], ["mark", 16777217, "T", 10]], [["get", "Y", "16bit", 1, 2], ["needs", 16777217, "T"]]], limit=300)
    yield dict(k="explore", programs=[[["get", "X", "32bit", 7, 9], ["get", "Y", "32bit", 7, 9]], [["get", "Y", "32bit", 7, 9], ["get", "X", "32bit", 7, 9]]], limit=600)
    yield dict(k="explore", programs=[[["get", "X", "8bit", 5, 7], ["del", 5]], [["get", "Y", "8bit", 5, 7], ["cleanup", "8bit", 5, 7, 1]]], limit=300)
    yield dict(k="explore", programs=[[["set", 5, "A"], ["mark", 5, "T", 7]], [["set", 5, "B"], ["mark", 5, "T", 9]], [["cleanup_uploads", 1]]], limit=300)
    # random longer programs, random schedules
    descs = ["A", "B", "C", "D", "E"]
    for _ in range(30 if ctx.quick else 400):
        space, b, e = rng.choice([("8bit", 5, 8), ("8bit", 1, 256), ("16bit", 1, 2), ("24bit", 3, 4), ("32bit", 0, 256), ("24bit", 0, 256)])
        nproc = rng.choice([2, 3, 4])
        progs = []
        for p in range(nproc):
            prog = []
            for _ in range(rng.randrange(1, 4)):
                prog.append(["get", rng.choice(descs), space, b, e])
            progs.append(prog)
        sched = [rng.randrange(nproc) for _ in range(60)]
        yield dict(k="schedule", programs=progs, schedule=sched, max_ids=rng.choice([1024, 2, 1024]))
    # first open of a fresh file interleaved statement by statement (PRAGMAs and schema DDL are switch points)
    fresh_progs = [[["get", "X", "8bit", 5, 8], ["mark", 5, "T", 3]], [["get", "Y", "8bit", 5, 8], ["needs", 5, "T"]]]
    for k in (1, 2, 3, 5, 8, 13, 20):
        yield dict(k="schedule", fresh=True, programs=fresh_progs, schedule=[0] * k + [1] * 200)
        yield dict(k="schedule", fresh=True, programs=fresh_progs, schedule=[1] * k + [0] * 200)
    for _ in range(8 if ctx.quick else 60):
        yield dict(k="schedule", fresh=True, programs=fresh_progs + ([[["get", "Z", "32bit", 0, 256]]] if rng.random() < 0.5 else []),
                   schedule=[rng.randrange(3) for _ in range(120)])
    # first-open race: several real processes open a fresh file together (non-deterministic; a failure is real)
    for _ in range(3 if ctx.quick else 10):
        yield dict(k="stress", procs=12, space="24bit", b=3, e=4, n=2)
    if not ctx.quick:
        for procs in (2, 4, 8, 16):
            for (space, b, e) in [("32bit", 0, 256), ("8bit", 1, 256), ("24bit", 3, 4)]:
                yield dict(k="stress", procs=procs, space=space, b=b, e=e, n=20)


def run(ctx: Ctx):
    ctx.rule = ("schedules at transaction-boundary/autocommit-statement granularity of 2-4 simulated processes: exhaustive stateless DFS for "
                "small programs (two/three concurrent get_id in large and enumerable subspaces, with prefill, with mark/needs/del/cleanup), random "
                "schedules for longer random programs; thorough adds 2..16 real OS processes on a barrier against a fresh file. "
                "distinct = canonical JSON of scenario(+schedule); non-trivial = more than one process takes steps")
    cdir = Path(__file__).resolve().parent.parent / "corpus" / "C03"
    if cdir.is_dir():
        for f in sorted(cdir.glob("*.json")):
            c = json.load(open(f))
            check_case(ctx, c)
            ctx.case(c)
            ctx.count("corpus")
    for c in cases(ctx):
        if ctx.time_left() < 0:
            ctx.count("skipped-over-budget")
            continue
        check_case(ctx, c)
        ctx.case(c)
    # every explored schedule is a distinct case
    ctx.evaluations += ctx.dist.get("schedules", 0)
    ctx.nontrivial += ctx.dist.get("schedules", 0)
