"""Writes MANIFEST.json from the table below:  /venv/bin/python -m harness.manifest"""
import json
from pathlib import Path

VERIF = Path(__file__).resolve().parent.parent

BASELINE_CMD = "cd /repo && /venv/bin/python -m pytest -ra -q -p no:cacheprovider --timeout=900 --continue-on-collection-errors"

# property -> (technique, level text, level note, design ref)
CLAIMED = {
    "C10": (
        "Lean 4 theorems over a hand-written model of IDSpace/IDSubspace + differential correspondence with the Python code",
        "Theorems in lean/Tup/Props/C10.lean about the model Tup.Model.IdSpace against the byte-layout specification "
        "Tup.Spec.Layout, for every id, space and subspace; the model is tied to /repo by running both on the same inputs "
        "(harness/c10.py) and the specification is evaluated on the implementation's answers to find failing inputs.",
        "Trusted: Lean kernel; Python int arithmetic; sqlite's & / BETWEEN; the correspondence generator's reach.",
        "DESIGN.md section 5, C10",
    ),
    "C01": (
        "Lean 4 invariant proof over allocator histories (DbInv, getId_member) + differential correspondence of every step with the sqlite tables",
        "Theorems in lean/Tup/Props/C01.lean: DbInv is preserved by every operation from the empty database (induction over histories) and every "
        "id returned by getId on any path (hit, free, LRU recycle, sample, sample after clean-up) is a Spec.Layout member; the model is compared "
        "with the real tables after every step of generated histories and Spec.member judges every id the real get_id/assign_id returns.",
        "Trusted: Lean kernel; sqlite statement semantics; 'whatever the database contains' = whatever library operations produced.",
        "DESIGN.md section 5, C01",
    ),
    "C02": (
        "Lean 4 theorems over the allocator model (hit, binds, frame, no displacement, exactly-LRU, oldest-prefix clean-up, listing) + step-by-step differential correspondence",
        "Theorems in lean/Tup/Props/C02.lean over every reachable database and admissible choice/tie-break; generated histories (all spaces, subspaces "
        "forcing every path, ties on atime, max-ids values) run on the real IDManager with all six tables dumped and compared after every step; "
        "Spec.AllocStep predicates judge the real before/after dumps.",
        "Trusted: Lean kernel; sqlite semantics; executable AllocStep checkers vs their Prop meanings.",
        "DESIGN.md section 5, C02",
    ),
    "C04": (
        "Lean 4 table-level soundness/completeness theorems for needs_uploading + ghost-log retention specification judged on generated histories",
        "Theorems in lean/Tup/Props/C04.lean (needsUploading_sound_partial/_complete_partial at table level, markUploaded_records, tie_witness); the "
        "ghost arrival log of Spec.Retention is maintained by the harness over histories with several terminals and judged against the real answers.",
        "History-level soundness/completeness against Spec.Retention are proved in Props/C08.lean (needsUploading_sound/_complete); equal timestamps = known finding D16 (StrictTimes hypothesis).",
        "DESIGN.md section 5, C04",
    ),
    "C05": (
        "Lean 4 theorems over a model of send/split + differential correspondence; spec parser/unwrapper/base64 decoder on the real stream",
        "Theorems in lean/Tup/Props/C05.lean (send_too_small, send_sizes, send_lossless, send_flags, send_keys, for every payload, header, "
        "limit and number of tmux layers) about Tup.Model.Command against Tup.Spec.GfxParse/TmuxUnwrap and the independent base64 decoder; "
        "model tied to /repo by byte-for-byte comparison of emitted streams (harness/c05.py); the spec is run on the real stream to find failing inputs.",
        "Trusted: Lean kernel; Python %-formatting, b64encode, read(n); spec = transcription of the kitty grammar.",
        "DESIGN.md section 5, C05",
    ),
    "C06": (
        "Lean 4 theorems (parse_toBytes for all command types) + regenerated key/enum tables checked by decide +kernel + differential correspondence",
        "Theorems in lean/Tup/Props/C06.lean: the independent parser recovers a permutation of Spec.fields and the exact payload for every command "
        "value; key letters, tuple order and enum codes are regenerated from /repo on every run (Tup/Gen/Keys.lean) and re-checked by the kernel; "
        "bytes compared with the real classes over the presence lattice x boundary values (harness/c06.py).",
        "Trusted: Lean kernel; Spec.fields is a transcription of the protocol's key table.",
        "DESIGN.md section 5, C06",
    ),
    "C11": (
        "Lean 4 theorems (unwrap_wrap, no_lone_esc, content_no_esc, detect_iff) + differential correspondence incl. both detection sites",
        "Theorems in lean/Tup/Props/C11.lean for every command, chunk and number of layers; correspondence over commands x 0..4 layers and the "
        "TMUX/TERM environment table through GraphicsTerminal.detect_tmux and the TupimageTerminal constructor (pty child); thorough: real tmux pass-through.",
        "Trusted: Lean kernel; Spec.TmuxUnwrap = tmux pass-through convention (validated against tmux 3.3a in the thorough tier).",
        "DESIGN.md section 5, C11",
    ),
    "C15": (
        "Lean 4 theorems in exact arithmetic over a model of get_optimal_cols_and_rows + exact/tolerance correspondence with the float code",
        "Theorems in lean/Tup/Props/C15.lean (bounds, minimal_box, no_unused, explicit_kept, verbatim) for all sizes, cell sizes, scales and limits "
        "in ideal arithmetic; the real float code is compared exactly on the float-exact domain and judged by the rational spec with a 1e-9 tolerance elsewhere.",
        "PARTIAL: IEEE-754 rounding is outside the proof. Trusted: Lean kernel, tty ioctl, harness/ptyhost.py.",
        "DESIGN.md section 5, C15",
    ),
    "C16": (
        "Lean 4 invariant proof tracked_sound over all call histories (tracker model vs terminal specification) + differential correspondence on a real pty with the Lean terminal answering cursor queries; thorough: real tmux",
        "Theorems in lean/Tup/Props/C16.lean: for every terminal size and every history of the modelled calls, tracked = some p implies p is the "
        "specification terminal's cursor after the bytes written so far (also stated on the raw byte stream). Random and structured call sequences "
        "run on a real GraphicsTerminal over a pty; tracked position and bytes are compared with the model after every call and the real tracked "
        "position is judged against Spec.Term fed with the real bytes (thorough: against tmux's own cursor).",
        "Trusted: Spec.Term (+ the three tmux corrections in Term.feedP) as the conforming terminal; cprClamps = false (terminal reports the pending-wrap column).",
        "DESIGN.md section 5, C16",
    ),
    "C17": (
        "Lean 4 theorems over a model of validate_and_normalize and the layer fold (option table regenerated from the code) + differential correspondence through the real constructor",
        "Theorems in lean/Tup/Props/C17.lean (precedence, layer_labels, printer/parser round trips, wrong_type_rejected, same_text_every_layer[_partial]); "
        "every option x value class x subset of layers through the real TupimageTerminal constructor in a pty child; TOML dump/load round trip checked dynamically.",
        "PARTIAL: same_text_every_layer_partial excludes floats/free strings/lists on the Lean side. toml_roundtrip proved on the typed channel; toml 0.10.2 trusted as identity on native TOML values.",
        "DESIGN.md section 5, C17",
    ),
    "C07": (
        "Lean 4 theorems (per-line decoding, parse/serialize, absolute and non-scrolling cursor-relative choreography) + differential correspondence; real bytes fed to the Lean terminal/decoder specification",
        "Theorems in lean/Tup/Props/C07.lean for every id, placement id, all 160 modes, any width and formatting: each emitted line decodes to the "
        "requested cells under Spec.Term + Spec.Decode; table regenerated from /repo equals the pinned protocol table (kernel-checked); absolute "
        "and non-scrolling at-cursor styles proved end to end. The real to_lines/to_stream bytes are compared with the model and fed to the "
        "specification terminal (all four styles, scrolling, right margin) to find failing inputs; thorough: Spec.Term validated against tmux 3.3a.",
        "Scrolling and line-feed (ONLCR) choreography proved; non-default margins while scrolling by F only. Trusted: Spec.Term/Spec.Decode, pinned table.",
        "DESIGN.md section 5, C07",
    ),
    "C13": (
        "Lean 4 theorems (line_resets, ends_default, line_alone, formatting confinement) + differential correspondence with subsets/permutations of lines fed to the spec terminal",
        "Theorems in lean/Tup/Props/C13.lean for any terminal state and background-only formatting; the real lines (all formatting kinds) alone, in "
        "subsets and permuted are fed to Spec.Term from arbitrary SGR states and judged by Spec.Decode and the final SGR state.",
        "Arbitrary (non-background) caller formatting bytes by correspondence only.",
        "DESIGN.md section 5, C13",
    ),
    "C14": (
        "Lean 4 theorems (fg_truecolor_iff, third_diacritic_iff, display_decodes) composing the ID-space and placeholder models + real display_only in a pty child",
        "Theorems in lean/Tup/Props/C14.lean for every id of every space, rectangle and fewer_diacritics; the real high-level display path is run "
        "for byte-class/random ids (thorough: every id of the three enumerable spaces) and judged by the layout and decoding specifications.",
        "Trusted: Lean kernel; Spec.Layout, Spec.Decode; pty hosting of TupimageTerminal.",
        "DESIGN.md section 5, C14",
    ),
    "C03": (
        "Lean 4 theorems over a transaction model (each atomic block is read-only or one complete public operation => every interleaving is a sequential run) + deterministic interleaving of the real code at transaction-boundary granularity judged by linearizability against sequential runs",
        "Theorems in lean/Tup/Props/C03.lean (alone_refines_*, step_is_public_op, linearizable, read_results, same_description_single_id, "
        "no_shared_id_while_free, steps_total_on_inv, inv_preserved) over Tup.Model.Txn for any number of processes and any schedule; the real "
        "IDManager is run as 2-4 simulated processes (threads with own connections) parked at every statement that does not hold the write lock, "
        "exhaustively (stateless DFS) for all pairs of operation kinds and randomly for longer programs; results + final tables must equal those of "
        "some one-at-a-time ordering (computed by running the real code sequentially with the same clock values and random tapes); thorough adds 2..16 real OS processes.",
        "PARTIAL: sqlite block atomicity/isolation, lock contention, busy time-outs and the first-open race are trusted/observed, not proved. count(None)/get_all(None) outside read_results.",
        "DESIGN.md section 5, C03",
    ),
    "C12": (
        "Lean 4 theorems crash_atomic_* / crash_inv / others_proceed over the transaction model + crash enumeration of the real code before EVERY SQL statement",
        "Theorems in lean/Tup/Props/C12.lean: a process stopping after any number of its blocks leaves the pre-state or the post-state (for the "
        "large-subspace get_id additionally the pre-state after its own completed clean-ups: crash_atomic_partial with a kernel-checked counter-example "
        "to plain all-or-nothing); DbInv holds in every crashed state. Real code: forked children exit inside the trace callback before every statement "
        "(incl. COMMIT) of every operation on several fill states; the reopened database is compared, with timestamps, against pre/post states.",
        "PARTIAL: WAL recovery, rollback on process death and lock release are sqlite's/the OS's (observed, not proved); schema DDL not modelled.",
        "DESIGN.md section 5, C12",
    ),
    "C08": (
        "Lean 4 theorem display_shows_requested (invariant between upload table and per-terminal arrival logs) + real request scenarios judged by the adversarial-terminal specification",
        "Theorems in lean/Tup/Props/C08.lean: for all histories of requests and environment operations, thresholds and admissible choices, at every "
        "placeholder print Spec.printOk holds (StrictTimes hypothesis visible); medium_policy for every transmission. Real code: 1-3 in-process "
        "TupimageTerminals on one database with generated scenarios (recycling, eviction, downscaling, SSH/method, tmux layers, terminal switches); "
        "command streams are parsed, pixels decoded with PIL, and Spec.Store judges every print; thorough adds concurrently running CLI processes on one tty.",
        "PARTIAL: PIL, filesystem mtime granularity and real concurrency inside a request are modelled/observed only; Model.Display is tied to the code by a per-request K (transmit / printed id+geometry / returned id) with the implementation's choices as inputs.",
        "DESIGN.md section 5, C08",
    ),
    "C09": (
        "Lean 4 theorems over a model of the upload's I/O program + fault enumeration of the real code at every write/flush",
        "Theorems in lean/Tup/Props/C09.lean: for every list of escape codes and every fault position/kind the error surfaces and "
        "nothing is marked; marked implies every byte written and flushed; in every outcome flushed bytes <= accepted bytes and completed calls <= calls of the transmission. The program shape (flush; write+flush per escape code; "
        "then mark_uploaded) is tied to /repo by injecting OSError / process death at EVERY I/O call of real uploads (both methods, "
        "several payload sizes) and comparing outcome, bytes and upload table with the model (harness/c09.py).",
        "Trusted: Lean kernel; sqlite statement atomicity; no partial writes; fault enumeration covers the payload shapes listed in the evidence.",
        "DESIGN.md section 5, C09",
    ),
    "C18": (
        "Lean 4 theorem sh_roundtrip (POSIX sh/printf evaluator specification over the exporter model, every byte string and comment) + differential correspondence + the generated scripts run by real dash/bash",
        "Theorems in lean/Tup/Props/C18.lean: Spec.Sh.eval (writeToShellscript data comment) = some data for every byte string and newline-free "
        "comment; comment_irrelevant; no_quote_in_format. The script text is compared with the real exporter and the script is executed by dash "
        "(bash in thorough) and compared with the data; Spec.Sh itself is validated against the shells on every executed case.",
        "Trusted: Lean kernel; Spec.Sh as a transcription of POSIX printf/sh (validated against dash and bash); base64(1).",
        "DESIGN.md section 5, C18",
    ),
    "C19": (
        "Lean 4 theorems (response_roundtrip, multiple_in_order, truncated_invalid, cpr_roundtrip) over a model of the read loops + differential correspondence on a real pty",
        "Theorems in lean/Tup/Props/C19.lean for every well-formed response, noise and remaining input; the real receive_response / "
        "receive_multiple_responses / get_cursor_position read scripted byte streams from a pty and are compared field by field with the model and the specification.",
        "PARTIAL: deadlines are modelled as end of input; select/time behaviour at the deadline is not modelled.",
        "DESIGN.md section 5, C19",
    ),
}

NOT_YET = "check not built yet in this round (work in progress; see DESIGN.md section 9 for the build order)"


def main():
    props = [json.loads(l)["id"] for l in open(VERIF / "properties.jsonl")]
    checks = []
    for p in props:
        if p not in CLAIMED:
            continue
        tech, text, note, ref = CLAIMED[p]
        checks.append({
            "property_id": p,
            "quick_cmd": f"./check {p} --tier quick",
            "thorough_cmd": f"./check {p} --tier thorough",
            "evidence_file": f"evidence/{p}.json",
            "replay_cmd_template": f"./check {p} --replay {{path}}",
            "engine": "lean4+correspondence",
            "level_claimed": {"category": "proof", "text": text, "design_ref": ref},
            "level_note": note,
            "technique": tech,
        })
    na = [{"property_id": p, "reason": NA.get(p, NOT_YET)} for p in props if p not in CLAIMED]
    man = {
        "version": 1,
        "setup_cmd": "./check --setup",
        "hooks": {
            "guard": "SERGEI_GRECHANIK_PYTUPIMAGE_VERIF",
            "enable": "no source hooks: the harness reaches clock, randomness, SQL statement boundaries, I/O faults and the tty from outside (monkeypatching in-process); checks set SERGEI_GRECHANIK_PYTUPIMAGE_VERIF=1 for uniformity",
            "baseline_off_cmd": BASELINE_CMD,
            "source_commits": [],
            "add_only": True,
        },
        "engines": [
            {"name": "lean4+correspondence", "path": "lean/ + harness/",
             "serves_properties": [c["property_id"] for c in checks],
             "kind_free_text": "Lean 4 model + theorems (lake project lean/, property theorems in Tup/Props), compiled Lean drivers "
                               "speaking a line protocol, Python harness driving the real code and the model on the same inputs"},
        ],
        "checks": checks,
        "notes": "Entry point ./check <ID> --tier quick|thorough; ./check <ID> --replay <file>; exit 2 = tool failure (never a verdict).",
        "not_applicable": na,
    }
    (VERIF / "MANIFEST.json").write_text(json.dumps(man, indent=1) + "\n")
    print("claimed:", [c["property_id"] for c in checks])


NA = {}

if __name__ == "__main__":
    main()
