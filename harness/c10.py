"""C10 — ID spaces partition the 32-bit IDs; enumeration, size, membership, filters agree.

K: tupimage.id_manager.{IDSpace,IDSubspace} vs Tup.Model.IdSpace through drv_ids.
F: Tup.Spec.Layout (byte projections + feature table) evaluated on the implementation's answers.
"""
from __future__ import annotations

import itertools
import os
import tempfile

from .common import Ctx

DRIVERS = ["drv_ids"]
EVIDENCE = dict(
    level="proof",
    trusted=[
        "Python int/bit operations, sqlite `&`/BETWEEN semantics (dbfilter cases observe them)",
        "Spec.Layout is a transcription of the property statement",
    ],
)

SPACES = [(0, True), (8, True), (24, True), (8, False), (24, False)]
BYTECLS = [0, 1, 2, 127, 128, 254, 255]


def _mods():
    from tupimage import id_manager as im
    return im


def sp(cb, u3):
    return f"{cb} {1 if u3 else 0}"


def all_subs():
    return [(b, e) for b in range(0, 256) for e in range(b + 1, 257) if e != 1]


# ---------------------------------------------------------------------------------------
def check_case(ctx: Ctx, c: dict):
    im = _mods()
    d = ctx.driver("drv_ids")
    k = c["k"]
    ctx.count("kind:" + k)
    if k == "id":
        n = c["id"]
        try:
            s = im.IDSpace.from_id(n)
            impl = f"{s.color_bits} {1 if s.use_3rd_diacritic else 0}"
        except ValueError:
            impl = "err"
        ctx.eq("from_id", c, impl, d.ask(f"fromid {n}"))
        try:
            sb = str(im.IDSpace.get_subspace_byte(n))
        except ValueError:
            sb = "err"
        ctx.eq("get_subspace_byte", c, sb, d.ask(f"subbyte {n}"))
        # F: exactly one space claims the id, and it is the one the spec names
        if 0 < n < 2**32:
            owners = []
            for cb, u3 in SPACES:
                try:
                    cont = im.IDSpace(cb, u3).contains(n)
                except ValueError:
                    cont = "err"
                spec = d.ask(f"spec_inspace {sp(cb, u3)} {n}") == "1"
                ctx.eq("contains", c, "err" if cont == "err" else ("1" if cont else "0"), d.ask(f"contains {sp(cb, u3)} {n}"))
                if cont is True:
                    owners.append((cb, u3))
                if cont != spec:
                    ctx.violation("contains disagrees with the layout specification", c,
                                  {"space": [cb, u3], "impl": cont, "spec": spec}, key="contains-vs-spec")
            if len(owners) != 1:
                ctx.violation("id not in exactly one space", c, {"owners": owners}, key="not-exactly-one-space")
            elif impl != "err":
                cb, u3 = owners[0]
                specb = d.ask(f"spec_subbyte {sp(cb, u3)} {n}")
                if sb != specb:
                    ctx.violation("subspace byte differs from the specification", c, {"impl": sb, "spec": specb},
                                  key="subspace-byte")
        else:
            if impl != "err":
                ctx.violation("from_id accepted an id outside 1..2^32-1", c, impl, key="from_id-accepts-invalid")
    elif k == "sub":
        cb, u3, b, e = c["cb"], c["u3"], c["b"], c["e"]
        try:
            u = im.IDSubspace(b, e)
        except ValueError:
            u = None
        ctx.eq("IDSubspace()", c, "ok" if u else "err", d.ask(f"mksub {b} {e}"))
        valid = (0 <= b < e <= 256) and e != 1
        if (u is not None) != valid:
            ctx.violation("subspace validity differs from the statement (begin<end<=256, end!=1)", c, key="subspace-validity")
        if u is None:
            return
        s = im.IDSpace(cb, u3)
        lo, hi = s.subspace_masked_range(u)
        impl = f"{s.subspace_size(u)} {s.subspace_byte_offset()} {s.subspace_byte_mask()} {lo} {hi} {u.num_byte_values()} {u.num_nonzero_byte_values()}"
        ctx.eq("subspace_size/mask/range", c, impl, d.ask(f"size {sp(cb, u3)} {b} {e}"))
        # split for every admissible k and the two rejected neighbours
        nz = u.num_nonzero_byte_values()
        ks = c.get("ks") or sorted(set([0, 1, 2, 3, nz - 1, nz, nz + 1, max(1, nz // 2)]) | set(ctx.rng.sample(range(1, nz + 1), min(4, nz))))
        for kk in ks:
            if kk < 0:
                continue
            try:
                parts = u.split(kk)
                implp = " ".join(f"{p.begin}:{p.end}" for p in parts)
            except ValueError:
                parts = None
                implp = "err"
            ctx.eq("split", dict(c, split=kk), implp, d.ask(f"split {b} {e} {kk}"))
            # F: k contiguous non-overlapping parts covering the subspace, each with a usable id
            should_ok = 1 <= kk <= max(nz, 1)
            if parts is None:
                if should_ok:
                    ctx.violation("split rejected an admissible count", dict(c, split=kk), key="split-rejects")
                continue
            ok = (len(parts) == kk and parts[0].begin == b and parts[-1].end == e
                  and all(parts[i].end == parts[i + 1].begin for i in range(len(parts) - 1))
                  and all(p.num_nonzero_byte_values() >= 1 for p in parts))
            if ok:
                for cb2, u32 in SPACES:
                    if any(im.IDSpace(cb2, u32).subspace_size(p) < 1 for p in parts):
                        ok = False
            if not ok:
                ctx.violation("split parts are not k contiguous non-empty parts covering the subspace", dict(c, split=kk),
                              implp, key="split-shape")
    elif k == "cis":
        cb, u3, b, e, n = c["cb"], c["u3"], c["b"], c["e"], c["id"]
        s = im.IDSpace(cb, u3)
        u = im.IDSubspace(b, e)
        try:
            impl = "1" if s.contains_and_in_subspace(n, u) else "0"
        except ValueError:
            impl = "err"
        ctx.eq("contains_and_in_subspace", c, impl, d.ask(f"cis {sp(cb, u3)} {b} {e} {n}"))
        spec = d.ask(f"spec_member {sp(cb, u3)} {b} {e} {n}")
        if impl != "err" and impl != spec:
            ctx.violation("contains_and_in_subspace disagrees with the layout specification", c, {"impl": impl, "spec": spec},
                          key="membership-vs-spec")
    elif k == "enum":
        cb, u3, b, e = c["cb"], c["u3"], c["b"], c["e"]
        s = im.IDSpace(cb, u3)
        u = im.IDSubspace(b, e)
        size = s.subspace_size(u)
        ids = list(s.all_ids(u))
        model = d.ask(f"allids {sp(cb, u3)} {b} {e} full")
        model_ids = [] if model == "-" else [int(x) for x in model.split(",")]
        if ids != model_ids:
            ctx.mismatch("all_ids", c, {"len": len(ids), "head": ids[:5]}, {"len": len(model_ids), "head": model_ids[:5]})
        ctx.count("enum-ids", len(ids))
        # F: every member exactly once, nothing else, size == count
        if len(ids) != len(set(ids)):
            ctx.violation("all_ids yields an id twice", c, key="enum-duplicate")
        if len(ids) != size:
            ctx.violation("subspace_size differs from the number of enumerated ids", c, {"size": size, "enumerated": len(ids)},
                          key="size-vs-enum")
        # candidate superset: the plane(s) the space lives in
        cands = _candidates(cb, u3, b, e)
        spec_members = set()
        replies = d.ask_many(f"spec_member {sp(cb, u3)} {b} {e} {n}" for n in cands)
        for n, r in zip(cands, replies):
            if r == "1":
                spec_members.add(n)
        extra = set(ids) - spec_members
        # ids outside the candidate planes are checked individually
        extra = {n for n in extra if d.ask(f"spec_member {sp(cb, u3)} {b} {e} {n}") != "1"}
        missing = spec_members - set(ids)
        if extra or missing:
            ctx.violation("all_ids differs from the member set of the specification", c,
                          {"extra": sorted(extra)[:5], "missing": sorted(missing)[:5]}, key="enum-vs-spec")
    elif k == "enumtail":
        # one block of a space too large to compare as a list: count and ends of the real enumeration vs the specification
        import collections
        cb, u3, b, e = c["cb"], c["u3"], c["b"], c["e"]
        s = im.IDSpace(cb, u3)
        u = im.IDSubspace(b, e)
        it = s.all_ids(u)
        head = list(itertools.islice(it, 4))
        tail = collections.deque(head, maxlen=4)
        n = len(head)
        last_seen = head[-1] if head else None
        dup_or_unsorted = False
        for x in it:
            n += 1
            tail.append(x)
        size = s.subspace_size(u)
        ctx.count("enumtail-ids", n)
        if n != size:
            ctx.violation("subspace_size differs from the number of enumerated ids", c, {"size": size, "enumerated": n}, key="size-vs-enum")
        for x in head + list(tail):
            if d.ask(f"spec_member {sp(cb, u3)} {b} {e} {x}") != "1":
                ctx.violation("all_ids yields a non-member", c, x, key="enum-vs-spec")
        # the numerically largest member must be enumerated: by nodup + count, a missing member means size-vs-enum fires,
        # unless something else is enumerated twice — so also require the extreme members at the ends
        lo = [x for x in range((b << (24 if u3 else 16)), (b << (24 if u3 else 16)) + 600) if d.ask(f"spec_member {sp(cb, u3)} {b} {e} {x}") == "1"][:1]
        top = ((e - 1) << (24 if u3 else 16)) | ((1 << (24 if u3 else 16)) - 1)
        if d.ask(f"spec_member {sp(cb, u3)} {b} {e} {top}") == "1" and top not in tail:
            ctx.violation("all_ids never yields the largest member of the subspace", c, {"largest": top, "tail": list(tail)}, key="enum-vs-spec")
        if lo and lo[0] not in head:
            ctx.violation("all_ids does not start with the smallest member of the subspace", c, {"smallest": lo[0], "head": head}, key="enum-vs-spec")
    elif k == "gen":
        cb, u3, b, e = c["cb"], c["u3"], c["b"], c["e"]
        s = im.IDSpace(cb, u3)
        u = im.IDSubspace(b, e)
        mode = c["mode"]
        script = list(c.get("draws") or [])
        log = []

        def randbelow(n):
            if mode == "min":
                dd = 0
            elif mode == "max":
                dd = n - 1
            elif mode == "script" and script:
                tok = script.pop(0)
                dd = (n - 1) if tok == "max" else 0 if tok == "min" else tok % n
            else:
                dd = ctx.rng.randrange(n)
            log.append((n, dd))
            return dd

        orig = im.secrets.randbelow
        im.secrets.randbelow = randbelow
        try:
            n = s.gen_random_id(u)
        finally:
            im.secrets.randbelow = orig
        draws = ",".join(str(x[1]) for x in log) or "-"
        cc = dict(c, draws=[x[1] for x in log])
        ctx.eq("gen_random_id", cc, str(n), d.ask(f"gen {sp(cb, u3)} {b} {e} {draws}"))
        # K on the bounds themselves: the model's randbelow arguments for the same draws (a too small bound makes
        # members unreachable although every id that IS produced agrees with the model)
        ctx.eq("gen_random_id randbelow bounds", cc, f"{n} {','.join(str(x[0]) for x in log) or '-'}",
               d.ask(f"genbounds {sp(cb, u3)} {b} {e} {draws}"))
        if any(x[0] == 255 and len(log) >= 3 and i == len(log) - 1 for i, x in enumerate(log)):
            ctx.count("gen:zero-red-branch")
        if d.ask(f"spec_member {sp(cb, u3)} {b} {e} {n}") != "1":
            ctx.violation("gen_random_id produced a non-member", cc, n, key="gen-non-member")
    elif k == "gentree":
        check_gentree(ctx, c)
    elif k == "dbfilter":
        ids = c["ids"]
        with tempfile.TemporaryDirectory(prefix="vc10") as td:
            m = im.IDManager(os.path.join(td, "t.db"))
            try:
                import datetime as _dt
                base = _dt.datetime(2031, 1, 1)
                for j, n in enumerate(ids):
                    m.set_id(n, f"d{n}", atime=base + _dt.timedelta(seconds=j))      # distinct ages, oldest first
                specsets = {}
                for cb, u3, b, e in c["queries"]:
                    s = im.IDSpace(cb, u3)
                    u = im.IDSubspace(b, e)
                    got = sorted(i.id for i in m.get_all(s, u))
                    cnt = m.count(s, u)
                    # model: rows of the space's own table that pass the filter
                    own = [n for n in ids if d.ask(f"contains {sp(cb, u3)} {n}") == "1"]
                    mod = sorted(n for n in set(own) if d.ask(f"sqlfilter {sp(cb, u3)} {b} {e} {n}") == "1")
                    q = dict(k="dbfilter", ids=ids, queries=[[cb, u3, b, e]])
                    ctx.eq("get_all filter", q, got, mod)
                    ctx.eq("count filter", q, cnt, len(mod))
                    spec = sorted(n for n in set(ids) if d.ask(f"spec_member {sp(cb, u3)} {b} {e} {n}") == "1")
                    specsets[(cb, u3, b, e)] = set(spec)
                    if got != spec or cnt != len(spec):
                        ctx.violation("database range filter does not select exactly the members", q,
                                      {"got": got[:8], "spec": spec[:8], "count": cnt}, key="dbfilter-vs-spec")
                # the same filter through the "all spaces" entry points: get_all(None, sub) / count(None, sub)
                for (b, e) in sorted({(q[2], q[3]) for q in c["queries"]}):
                    u = im.IDSubspace(b, e)
                    got = sorted(i.id for i in m.get_all(None, u))
                    cnt = m.count(None, u)
                    mod = sorted(n for n in set(ids) for (cb, u3) in SPACES
                                 if d.ask(f"contains {sp(cb, u3)} {n}") == "1" and d.ask(f"sqlfilter {sp(cb, u3)} {b} {e} {n}") == "1")
                    q = dict(k="dbfilter", ids=ids, queries=[[24, True, b, e]], all_spaces=True)
                    ctx.eq("get_all(None) filter", q, got, mod)
                    ctx.eq("count(None) filter", q, cnt, len(mod))
                    spec = sorted(n for n in set(ids) for (cb, u3) in SPACES if d.ask(f"spec_member {sp(cb, u3)} {b} {e} {n}") == "1")
                    if got != spec or cnt != len(spec):
                        ctx.violation("database range filter over all spaces does not select exactly the members", q,
                                      {"got": got[:8], "spec": spec[:8], "count": cnt}, key="dbfilter-allspaces-vs-spec")
                # the same filter as `cleanup` uses it (twice: to count the excess and to pick the victims): exactly the
                # oldest surplus MEMBERS go, every other row of every table stays
                def dump_all():
                    return sorted(r[0] for sx in im.IDSpace.all_values() for r in m.conn.execute(f"SELECT id FROM {sx.namespace_name()}"))
                cur = list(ids)                      # insertion order = age order
                for cb, u3, b, e in c["queries"]:
                    members = [n for n in cur if n in specsets[(cb, u3, b, e)]]
                    if len(members) < 2:
                        continue
                    keep = len(members) - 1 if len(members) % 2 else max(1, len(members) // 2)
                    m.cleanup(im.IDSpace(cb, u3), im.IDSubspace(b, e), max_ids=keep)
                    gone = members[:len(members) - keep]
                    cur = [n for n in cur if n not in gone]
                    got = dump_all()
                    q = dict(k="dbfilter", ids=ids, queries=[[cb, u3, b, e]], cleanup_keep=keep)
                    ctx.count("dbfilter:cleanup")
                    if got != sorted(cur):
                        ctx.violation("cleanup of a subspace did not remove exactly its oldest surplus members", q,
                                      {"wrongly_removed": sorted(set(cur) - set(got))[:8], "wrongly_kept": sorted(set(got) - set(cur))[:8],
                                       "members": len(members), "keep": keep}, key="dbfilter-cleanup-vs-spec")
                        cur = [n for n in ids if n in set(got)]
            finally:
                m.close()
    elif k == "str":
        cb, u3 = c["cb"], c["u3"]
        s = im.IDSpace(cb, u3)
        ctx.eq("IDSpace.__str__", c, str(s), d.ask(f"name {sp(cb, u3)}"))
        for t in c["strings"]:
            try:
                r = im.IDSpace.from_string(t)
                impl = f"{r.color_bits} {1 if r.use_3rd_diacritic else 0}"
            except ValueError:
                impl = "err"
            ctx.eq("IDSpace.from_string", dict(c, s=t), impl, d.ask(f"ofstring {t}"))
    else:
        raise ValueError(k)


def _walk_draw_tree(im, s, u, depth_limit=None, max_runs=400_000):
    """Enumerate the draw tree of gen_random_id(s, u) with an odometer over scripted `randbelow` results.
    depth_limit=None: every leaf is run -> yields (id, bounds, draws) per leaf.
    depth_limit=-1: every prefix that stops one draw short of its leaf (last draw 0)."""
    path = []
    runs = 0
    while True:
        log = []
        it = iter(path)

        def randbelow(n, _it=it, _log=log):
            dd = next(_it, 0)
            _log.append((n, dd))
            return dd

        orig = im.secrets.randbelow
        im.secrets.randbelow = randbelow
        try:
            n = s.gen_random_id(u)
        finally:
            im.secrets.randbelow = orig
        runs += 1
        if runs > max_runs:
            raise OverflowError("draw tree too large")
        yield n, [x[0] for x in log], [x[1] for x in log]
        # next path: increment the last digit that can still grow (all digits, or all but the last)
        digits = list(log if depth_limit is None else log[:-1])
        while digits and digits[-1][1] + 1 >= digits[-1][0]:
            digits.pop()
        if not digits:
            return
        path = [x[1] for x in digits]
        path[-1] += 1


def check_gentree(ctx: Ctx, c: dict):
    """"random generation only produces (and can produce all) members", decided on the whole draw tree.
    gen_random_id is a deterministic function of the successive randbelow results, each in range(bound), so the ids it
    can ever produce are exactly the outputs over all admissible draw sequences.
      mode "exhaustive": every leaf is executed; the produced set must equal the member set of Spec.Layout.
      mode "count":      (trees too large to execute) every path is executed up to its last draw; the number of
                         leaves = sum of the last bounds. Fewer leaves than members => some member can never be
                         produced (pigeonhole). The member count is Model.subspaceSize, which equals the number of
                         Spec members by the theorems allIds_length / allIds_nodup / mem_allIds_iff_member."""
    im = _mods()
    d = ctx.driver("drv_ids")
    cb, u3, b, e = c["cb"], c["u3"], c["b"], c["e"]
    s = im.IDSpace(cb, u3)
    u = im.IDSubspace(b, e)
    leaves_model, size_model = (int(x) for x in d.ask(f"genleaves {sp(cb, u3)} {b} {e}").split(" "))
    if c["mode"] == "exhaustive":
        produced = {}
        leaves = 0
        for n, bounds, draws in _walk_draw_tree(im, s, u):
            leaves += 1
            produced.setdefault(n, draws)
        ctx.count("gentree-leaves-executed", leaves)
        ctx.eq("gen_random_id number of draw sequences", c, leaves, leaves_model)
        ids = sorted(produced)
        member = d.ask_many(f"spec_member {sp(cb, u3)} {b} {e} {n}" for n in ids)
        extra = [n for n, r in zip(ids, member) if r != "1"]
        if extra:
            ctx.violation("gen_random_id produced a non-member", dict(c, draws=produced[extra[0]]), extra[:5], key="gen-non-member")
        cands = _candidates(cb, u3, b, e)
        replies = d.ask_many(f"spec_member {sp(cb, u3)} {b} {e} {n}" for n in cands)
        missing = sorted(n for n, r in zip(cands, replies) if r == "1" and n not in produced)
        if missing:
            ctx.violation("a member of the subspace is produced by no admissible sequence of randbelow results (all "
                          f"{leaves} sequences executed)", c, {"missing": missing[:6], "number_missing": len(missing)},
                          key="gen-cannot-produce-member")
    else:
        leaves = 0
        prefixes = 0
        probe_bad = None
        for n, bounds, draws in _walk_draw_tree(im, s, u, depth_limit=-1):
            prefixes += 1
            leaves += bounds[-1] if bounds else 1
            if bounds and (prefixes % 997 == 1 or bounds[-1] != 256):
                # the last draw must end the path whatever its value (checked for 1, n-1 here, 0 above)
                for last in {1 % bounds[-1], bounds[-1] - 1}:
                    log = []
                    it = iter(draws[:-1] + [last])

                    def randbelow(nn, _it=it, _log=log):
                        dd = next(_it, 0)
                        _log.append(nn)
                        return dd

                    orig = im.secrets.randbelow
                    im.secrets.randbelow = randbelow
                    try:
                        nid = s.gen_random_id(u)
                    finally:
                        im.secrets.randbelow = orig
                    if log != bounds:
                        probe_bad = (draws, last, log)
                    elif d.ask(f"spec_member {sp(cb, u3)} {b} {e} {nid}") != "1":
                        ctx.violation("gen_random_id produced a non-member", dict(c, draws=draws[:-1] + [last]), nid, key="gen-non-member")
        ctx.count("gentree-prefixes-executed", prefixes)
        ctx.eq("gen_random_id number of draw sequences", c, leaves, leaves_model)
        if probe_bad is not None:
            ctx.count("gentree-not-judged:last-draw-does-not-end-the-path")
        elif leaves < size_model:
            ctx.violation(f"gen_random_id can consume only {leaves} different sequences of randbelow results but the subspace has "
                          f"{size_model} members: some member can never be produced", c,
                          {"draw_sequences": leaves, "members": size_model}, key="gen-cannot-produce-member")


def _candidates(cb, u3, b, e):
    """A superset of the members of (space, subspace) small enough to test one by one."""
    if (cb, u3) == (0, True):
        return [b3 << 24 for b3 in range(256)]
    if (cb, u3) == (8, False):
        return list(range(0, 512))
    if (cb, u3) == (8, True):
        return [(b3 << 24) | b0 for b3 in range(256) for b0 in range(256)] + [(b3 << 24) | 0x100 for b3 in range(0, 256, 51)]
    if (cb, u3) == (24, False):
        lo = max(0, b - 1)
        hi = min(256, e + 1)
        return [(b2 << 16) | x for b2 in range(lo, hi) for x in range(65536)]
    lo = max(0, b - 1)
    hi = min(256, e + 1)
    return [(b3 << 24) | x for b3 in range(lo, hi) for x in itertools.chain(range(0, 70000), range((1 << 24) - 70000, 1 << 24))]


# ---------------------------------------------------------------------------------------
def cases(ctx: Ctx):
    rng = ctx.rng
    quick = ctx.quick
    # (b) ids: byte-class products, boundaries, random
    for b3, b2, b1, b0 in itertools.product(BYTECLS, repeat=4):
        yield {"k": "id", "id": (b3 << 24) | (b2 << 16) | (b1 << 8) | b0}
    for n in [0, -0, 2**32 - 1, 2**32, 2**32 + 1, 2**33, 1, 255, 256, 257, 65535, 65536, 2**24 - 1, 2**24, 2**24 + 1]:
        yield {"k": "id", "id": n}
    for _ in range(3000 if quick else 60000):
        yield {"k": "id", "id": rng.randrange(1, 2**32)}
    if not quick:
        # every id of two two-byte planes (low plane and a high-byte plane)
        for n in range(0, 65536 + 300):
            yield {"k": "id", "id": n}
        for x in range(0, 65536, 1):
            if x % 4 == 0:
                yield {"k": "id", "id": (x >> 8) << 24 | (x & 0xFF)}
    # (a) subspaces
    subs = all_subs()
    bset = [0, 1, 2, 3, 127, 128, 254, 255]
    boundary = [(b, e) for b in bset for e in [2, 3, 4, 128, 129, 255, 256] if b < e]
    invalid = [(0, 1), (5, 5), (6, 5), (0, 257), (256, 257), (255, 300), (0, 0)]
    chosen = boundary + invalid + (rng.sample(subs, 400) if quick else subs)
    for (b, e) in chosen:
        for cb, u3 in (SPACES if (quick or (b, e) in boundary or rng.random() < 0.02) else [SPACES[rng.randrange(5)]]):
            yield {"k": "sub", "cb": cb, "u3": u3, "b": b, "e": e}
    # all split counts for a few subspaces
    for (b, e) in [(0, 256), (1, 256), (0, 2), (0, 3), (5, 9), (0, 17), (3, 250)]:
        u_nz = (e - 1) if b == 0 else (e - b)
        yield {"k": "sub", "cb": 24, "u3": True, "b": b, "e": e, "ks": list(range(0, u_nz + 3))}
    if not quick:
        for (b, e) in rng.sample(subs, 300):
            u_nz = (e - 1) if b == 0 else (e - b)
            yield {"k": "sub", "cb": 8, "u3": False, "b": b, "e": e, "ks": list(range(0, u_nz + 2))}
    # membership: ids near the subspace boundary
    for _ in range(1500 if quick else 30000):
        cb, u3 = SPACES[rng.randrange(5)]
        b, e = rng.choice(boundary) if rng.random() < 0.3 else rng.choice(subs)
        off = 24 if u3 else (16 if cb == 24 else 0)
        sbyte = rng.choice([b - 1, b, b + 1, e - 2, e - 1, e, rng.randrange(256)]) % 256
        n = rng.randrange(1, 2**32)
        if rng.random() < 0.8:
            n = (n & ~(0xFF << off)) | (sbyte << off)
        if rng.random() < 0.5:
            # push the id into the space's own shape
            if not u3:
                n &= 0x00FFFFFF
            if cb == 0:
                n &= 0xFF000000
            if cb == 8:
                n &= 0xFF0000FF
        if n == 0:
            n = 1
        yield {"k": "cis", "cb": cb, "u3": u3, "b": b, "e": e, "id": n}
    # enumeration
    enum = []
    for (b, e) in (boundary if quick else boundary + rng.sample(subs, 60)):
        enum.append((0, True, b, e))
        enum.append((8, False, b, e))
    for (b, e) in [(0, 2), (1, 3), (255, 256), (0, 3), (127, 129)] + ([] if quick else [(0, 256), (1, 256), (100, 140)]):
        if (e - b) <= 3 or not quick:
            enum.append((8, True, b, e))
    for (b, e) in [(0, 2), (255, 256)] + ([] if quick else [(0, 3), (1, 2), (7, 9), (127, 129)]):
        enum.append((24, False, b, e))
    for cb, u3, b, e in enum:
        yield {"k": "enum", "cb": cb, "u3": u3, "b": b, "e": e}
    # count and ends of one block of the two big spaces (16.7 M / 65 k ids)
    yield {"k": "enumtail", "cb": 24, "u3": True, "b": 255, "e": 256}
    yield {"k": "enumtail", "cb": 24, "u3": False, "b": 254, "e": 256}
    if not quick:
        yield {"k": "enumtail", "cb": 24, "u3": True, "b": 0, "e": 2}
        yield {"k": "enumtail", "cb": 24, "u3": False, "b": 0, "e": 256}
    # random generation with scripted draws
    for cb, u3 in SPACES:
        for (b, e) in boundary + rng.sample(subs, 20 if quick else 400):
            yield {"k": "gen", "cb": cb, "u3": u3, "b": b, "e": e, "mode": "min"}
            yield {"k": "gen", "cb": cb, "u3": u3, "b": b, "e": e, "mode": "max"}
            for _ in range(4 if quick else 12):
                yield {"k": "gen", "cb": cb, "u3": u3, "b": b, "e": e, "mode": "rand"}
            # force byte_2 == 0 branch
            yield {"k": "gen", "cb": cb, "u3": u3, "b": b, "e": e, "mode": "script", "draws": [rng.randrange(256), rng.randrange(256), 0, rng.randrange(255)]}
            yield {"k": "gen", "cb": cb, "u3": u3, "b": b, "e": e, "mode": "script", "draws": [rng.randrange(256), 0, 0, 254]}
            # zero red byte with the extreme green values, in both draw orders (32-bit: b3 b0 b2 b1; 24-bit: b0 b2 b1)
            yield {"k": "gen", "cb": cb, "u3": u3, "b": b, "e": e, "mode": "script", "draws": ["max", "max", "min", "max"]}
            yield {"k": "gen", "cb": cb, "u3": u3, "b": b, "e": e, "mode": "script", "draws": ["max", "min", "max", "max"]}
            yield {"k": "gen", "cb": cb, "u3": u3, "b": b, "e": e, "mode": "script", "draws": ["min", "min", "min", "min"]}
    # whole draw trees: "can produce all members"
    for (b, e) in boundary + rng.sample(subs, 10 if quick else 200):
        yield {"k": "gentree", "cb": 0, "u3": True, "b": b, "e": e, "mode": "exhaustive"}
        yield {"k": "gentree", "cb": 8, "u3": False, "b": b, "e": e, "mode": "exhaustive"}
    for (b, e) in [(0, 2), (1, 2), (255, 256), (0, 3), (1, 3), (127, 129), (254, 256)] + ([(0, 256)] if quick else [(0, 256), (1, 256), (100, 140)]):
        yield {"k": "gentree", "cb": 8, "u3": True, "b": b, "e": e, "mode": "exhaustive"}
    for (b, e) in [(0, 2), (255, 256)] + ([] if quick else [(1, 2), (0, 3), (127, 129)]):
        yield {"k": "gentree", "cb": 24, "u3": False, "b": b, "e": e, "mode": "exhaustive"}
    for (b, e) in [(0, 2), (1, 2), (255, 256)] + ([] if quick else [(0, 3), (127, 128), (254, 256)]):
        yield {"k": "gentree", "cb": 24, "u3": True, "b": b, "e": e, "mode": "count"}
    for (b, e) in [(0, 3), (254, 256)] + ([] if quick else [(0, 256), (1, 256), (7, 9)]):
        yield {"k": "gentree", "cb": 24, "u3": False, "b": b, "e": e, "mode": "count"}
    # database filter
    for _ in range(3 if quick else 25):
        ids = set()
        for _ in range(60):
            b3, b2, b1, b0 = (rng.choice(BYTECLS + [rng.randrange(256)]) for _ in range(4))
            n = (b3 << 24) | (b2 << 16) | (b1 << 8) | b0
            if n:
                ids.add(n)
        # ids whose subspace byte is 0 / 1 / 255 in every space that allows it
        for x in (0x000001FE, 0x0000FE01, 0x00010000, 0x00FF0001, 0x01000000, 0xFF000000, 0x01000001, 0xFF0000FF,
                  0x01000100, 0xFF00FF00, 0x00000001, 0x000000FF, 0x01FFFFFF, 0xFFFFFFFF):
            ids.add(x)
        qs = []
        for cb, u3 in SPACES:
            for (b, e) in [(1, 256), (0, 256), (0, 255), (1, 255), (0, 2), (255, 256)] + rng.sample(boundary, 3) + rng.sample(subs, 2):
                qs.append([cb, u3, b, e])
        yield {"k": "dbfilter", "ids": sorted(ids), "queries": qs}
    for cb, u3 in SPACES:
        yield {"k": "str", "cb": cb, "u3": u3,
               "strings": ["32", "32bit", "24", "24bit", "8d", "8bit_diacritic", "8", "8bit", "256", "16", "16d", "16bit",
                           "16bit_diacritic", "0", "x", "33", "8bitd"]}


def run(ctx: Ctx):
    ctx.rule = ("cases: id byte-class products (7^4) + boundaries + random ids; all/boundary/random subspaces x spaces with every split "
                "count class; membership probes at subspace boundaries; whole-list enumeration of enumerable subspaces vs candidate "
                "planes; gen_random_id with scripted draws (min/max/random/forced zero byte, requested bounds compared); whole draw trees "
                "of gen_random_id (every leaf executed for the enumerable spaces and one-byte 24-bit subspaces; leaf count vs member "
                "count for 32-bit); sqlite range filter on boundary ids. "
                "distinct = canonical JSON of the case; non-trivial = every case except the constant-string table")
    corpus_dir = __import__("pathlib").Path(__file__).resolve().parent.parent / "corpus" / "C10"
    if corpus_dir.is_dir():
        import json
        for f in sorted(corpus_dir.glob("*.json")):
            c = json.load(open(f))
            check_case(ctx, c)
            ctx.case(c)
            ctx.count("corpus")
    for c in cases(ctx):
        if ctx.time_left() < 0 and c["k"] not in ("dbfilter", "str"):
            ctx.count("skipped-over-budget")
            continue
        try:
            check_case(ctx, c)
        except (ValueError, KeyError, IndexError, TypeError, AssertionError, ZeroDivisionError) as ex:
            # Every case of this check asks only for what the property quantifies over (non-zero 32-bit ids, the five spaces, valid
            # subspaces; rejections are compared where they are expected).  An exception that comes out of the LIBRARY on such a
            # request is a failing input, not a tool failure.
            import traceback
            tb = traceback.extract_tb(ex.__traceback__)
            if not tb or "/tupimage/" not in tb[-1].filename:
                raise
            ctx.violation("the library raised on a request within the property's domain", c,
                          {"exception": type(ex).__name__ + ": " + str(ex)[:200], "where": f"{tb[-1].filename.rsplit('/', 1)[-1]}:{tb[-1].lineno} {tb[-1].name}"},
                          key="raised-in-domain:" + tb[-1].name)
        ctx.case(c, nontrivial=(c["k"] != "str"))
    ctx.assumptions += ["IDs outside the candidate planes of an enumerated subspace are checked individually, not enumerated"]
