"""Validation of the terminal specification (Tup.Spec.Term) against a real terminal: tmux 3.3a.

Thorough tier only.  The same bytes (a start-state prefix + what the REAL code emits for a
placeholder in some style) are written to a tmux pane of a given size and fed to Spec.Term
through drv_ph; cursor (`display-message -p '#{cursor_x},#{cursor_y}'`) and cells with colours,
underline colour and combining marks (`capture-pane -e -p`) are compared.

A disagreement is a *spec-validation note* in the evidence (the specification or tmux deviates
from the other), never a property violation.
"""
from __future__ import annotations

import os
import subprocess
import time
import unicodedata

from . import ph_util as U
from .common import Ctx

SOCK = "verif_termcheck_%d" % os.getpid()


def tm(*args, text=True):
    return subprocess.run(["tmux", "-L", SOCK, "-f", "/dev/null", *args], capture_output=True, text=text, timeout=20)


class Pane:
    def __init__(self, W, H, name):
        self.name = name
        r = tm("new-session", "-d", "-s", name, "-x", str(W), "-y", str(H), "stty raw -echo; exec cat >/dev/null")
        if r.returncode != 0:
            raise RuntimeError("tmux new-session failed: " + r.stderr)
        for _ in range(200):
            cmd = tm("display-message", "-p", "-t", name, "#{pane_current_command}").stdout.strip()
            if cmd == "cat":
                break
            time.sleep(0.01)
        time.sleep(0.02)
        self.tty = tm("display-message", "-p", "-t", name, "#{pane_tty}").stdout.strip()
        sz = tm("display-message", "-p", "-t", name, "#{pane_width},#{pane_height}").stdout.strip()
        if sz != f"{W},{H}":
            raise RuntimeError(f"pane size {sz} != {W},{H}")

    def snapshot(self):
        cur = tm("display-message", "-p", "-t", self.name, "#{cursor_x},#{cursor_y}").stdout.strip()
        cap = tm("capture-pane", "-e", "-p", "-N", "-t", self.name, text=False).stdout
        return cur, cap

    def feed(self, data: bytes):
        fd = os.open(self.tty, os.O_WRONLY | os.O_NOCTTY)
        try:
            os.write(fd, data)
        finally:
            os.close(fd)
        prev = None
        for _ in range(100):
            time.sleep(0.015)
            snap = self.snapshot()
            if snap == prev:
                return snap
            prev = snap
        return prev

    def close(self):
        tm("kill-session", "-t", self.name)


def parse_capture(cap: bytes):
    """capture-pane -e -p output -> {(y,x): (ch, marks, fg, ul, bg)} for every non-blank cell"""
    text = cap.decode("utf-8", "replace")
    cells = {}
    fg = ul = bg = "-"
    y = x = 0
    i = 0
    n = len(text)

    def color(ps, k):
        if ps[k + 1] == 5:
            return "i%d" % ps[k + 2], k + 3
        return "r%d.%d.%d" % (ps[k + 2], ps[k + 3], ps[k + 4]), k + 5

    while i < n:
        ch = text[i]
        if ch == "\x1b" and i + 1 < n and text[i + 1] == "[":
            j = i + 2
            while j < n and not ("@" <= text[j] <= "~"):
                j += 1
            body = text[i + 2:j].replace(":", ";")
            if text[j] == "m":
                ps = [int(t) if t else 0 for t in body.split(";")] if body else [0]
                k = 0
                while k < len(ps):
                    v = ps[k]
                    if v == 0:
                        fg = ul = bg = "-"
                        k += 1
                    elif v in (38, 48, 58) and k + 1 < len(ps):
                        col, k = color(ps, k)
                        if v == 38:
                            fg = col
                        elif v == 48:
                            bg = col
                        else:
                            ul = col
                    elif v == 39:
                        fg = "-"
                        k += 1
                    elif v == 49:
                        bg = "-"
                        k += 1
                    elif v == 59:
                        ul = "-"
                        k += 1
                    elif 30 <= v <= 37 or 90 <= v <= 97:
                        fg = "i%d" % (v - 30 if v < 90 else v - 90 + 8)
                        k += 1
                    elif 40 <= v <= 47 or 100 <= v <= 107:
                        bg = "i%d" % (v - 40 if v < 100 else v - 100 + 8)
                        k += 1
                    else:
                        k += 1
            i = j + 1
            continue
        if ch == "\n":
            y += 1
            x = 0
            i += 1
            continue
        if unicodedata.combining(ch) and x > 0:
            c = cells.get((y, x - 1), (32, (), fg, ul, bg))
            cells[(y, x - 1)] = (c[0], c[1] + (ord(ch),), c[2], c[3], c[4])
        else:
            cells[(y, x)] = (ord(ch), (), fg, ul, bg)
            x += 1
        i += 1
    return cells


def visible(cells):
    """drop visually blank cells (a space without background): tmux trims them at line ends"""
    return {k: v for k, v in cells.items() if not (v[0] == 32 and v[4] == "-" and not v[1])}


def scenarios(ctx: Ctx, n):
    from .c07 import stream_case, byte_ids
    from .c13 import rand_fmt
    rng = ctx.rng
    ids = byte_ids()
    modes = U.all_modes()
    out = []
    while len(out) < n:
        sc, ec = rng.choice([(0, 1), (0, 3), (1, 4), (2, 5), (295, 298), (0, 6)])
        sr, er = rng.choice([(0, 1), (0, 2), (1, 4), (0, 5), (295, 298), (296, 297)])
        p = [rng.choice(ids), rng.choice([0, 1, 0xFFFFFF, 0x010203]), sc, sr, ec, er]
        c = stream_case(rng, p, rng.choice(modes), f=rand_fmt(rng, p), via="direct")
        if c["W"] < 3 or c["H"] < 2 or c["W"] > 60 or c["H"] > 12:
            continue
        out.append(c)
    # hand-written control-function probes (raw bytes)
    raw = [
        dict(W=10, H=4, raw=b"\x1b[3;9Hab\x1b[2Dc".hex()),                      # CUB from the pending-wrap column
        dict(W=10, H=4, raw=b"\x1b[3;9Hab\x1b[1Cc".hex()),
        dict(W=10, H=4, raw=b"\x1b[4;1Ha\x1bDb\x1bDc".hex()),                    # IND scrolls at the bottom
        dict(W=10, H=4, raw=b"\x1b[4;9Hab\r\ncd\x1bEef".hex()),                  # wrap, CR LF, NEL
        dict(W=10, H=4, raw=b"\x1b[38;5;3m\x1b[2;2H\x1b[sxy\x1b[0m\x1b[uz".hex()),  # CSI s / CSI u and SGR
        dict(W=10, H=5, raw=b"\x1b[2;4r\x1b[4;1Ha\nb\nc\x1b[r".hex()),           # scroll region
        dict(W=10, H=4, raw=b"\x1b[1;1Habc\x1b[2;2Hd\x1b[2S".hex()),             # SU
        dict(W=10, H=4, raw=b"\x1b[2;3Hq\x1b[5A\x1b[9Br\x1b[20Cs".hex()),        # clamping
    ]
    return out + raw


def validate(ctx: Ctx, n: int = 120):
    d = ctx.driver("drv_ph")
    stats = dict(scenarios=0, agree=0, cursor_disagree=0, cell_disagree=0, bce_on_scroll_only=0, skipped=0)
    notes = []
    if subprocess.run(["tmux", "-V"], capture_output=True, text=True).stdout.strip() == "":
        ctx.notes.append("termcheck: tmux not available")
        return
    try:
        for k, c in enumerate(scenarios(ctx, n)):
            if ctx.time_left() < 20:
                stats["skipped"] += 1
                continue
            if "raw" in c:
                data = bytes.fromhex(c["raw"])
                W, H = c["W"], c["H"]
            else:
                st, body = U.impl_stream(c["style"], c["ph"], c["mode"], c.get("fmt", {"t": "n"}))
                if st != "ok":
                    continue
                style = c["style"]
                if style[0] == "lfall" or (style[0] == "cur" and style[2]) or (style[0] == "disp" and style[1] is None and style[3]):
                    body = body.replace(b"\n", b"\r\n")       # the pane's tty is raw: do ONLCR ourselves
                sg = c.get("sgr", ["-", "-", "-"])
                pre = b""
                for lead, v in zip((38, 58, 48), sg):
                    if v.startswith("i"):
                        pre += b"\x1b[%d;5;%sm" % (lead, v[1:].encode())
                    elif v.startswith("r"):
                        pre += b"\x1b[%d;2;%sm" % (lead, v[1:].replace(".", ";").encode())
                data = pre + b"\x1b[%d;%dH" % (c["y0"] + 1, c["x0"] + 1) + body
                W, H = c["W"], c["H"]
            pane = Pane(W, H, f"s{k}")
            try:
                cur, cap = pane.feed(data)
            finally:
                pane.close()
            stats["scenarios"] += 1
            sp = U.parse_spec(d.ask(U.req_spec(W, H, 0, 0, 1, 1, 0, ["-", "-", "-"], data)))
            tcells = visible(parse_capture(cap))
            scells = visible(sp["cells"])
            ok = True
            if cur != f"{sp['cur'][0]},{sp['cur'][1]}":
                stats["cursor_disagree"] += 1
                ok = False
                if len(notes) < 8:
                    notes.append(f"termcheck cursor: tmux {cur} vs Spec.Term {sp['cur']} on {W}x{H} bytes={data.hex()[:160]}")
            diffk = [kk for kk in set(tcells) | set(scells) if tcells.get(kk) != scells.get(kk)]
            if diffk and all(scells.get(kk) is None and tcells[kk][0] == 32 and not tcells[kk][1] for kk in diffk) and sp["scrolled"] > 0:
                # known deviation: tmux fills lines scrolled in with the current background (BCE); Spec.Term scrolls in
                # default blanks.  Only the terminal's own prior/restored SGR background can be involved (every emitted
                # line ends with a reset), so no claim of C07/C13 depends on it.
                stats["bce_on_scroll_only"] += 1
            elif tcells != scells:
                stats["cell_disagree"] += 1
                ok = False
                if len(notes) < 8:
                    diff = [(kk, tcells.get(kk), scells.get(kk)) for kk in sorted(set(tcells) | set(scells)) if tcells.get(kk) != scells.get(kk)][:3]
                    notes.append(f"termcheck cells: (pos, tmux, Spec.Term) {diff} on {W}x{H} bytes={data.hex()[:160]}")
            if ok:
                stats["agree"] += 1
    finally:
        tm("kill-server")
    ctx.extra["termcheck_vs_tmux"] = stats
    ctx.notes += ["spec-validation note (not a property verdict): " + s for s in notes]
    if stats["bce_on_scroll_only"]:
        ctx.notes.append(f"spec-validation note: on {stats['bce_on_scroll_only']} scenarios the only difference is tmux's background-colour-erase "
                         "on scrolled-in lines (start/restored SGR background), which Spec.Term does not model")
    if not notes:
        ctx.notes.append(f"termcheck: Spec.Term agrees with tmux 3.3a on {stats['agree']}/{stats['scenarios']} scenarios (cursor + every cell)")
