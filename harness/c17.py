"""C17 — configuration layers resolve by fixed precedence and round-trip through TOML.

K: the real `TupimageTerminal(...)` constructor hosted on a pty (harness/ptyhost.py: scrubbed
   environment with TUPIMAGE_* set per case, config file in a temp dir given through
   TUPIMAGE_CONFIG or `config=path`, `**kwargs`, `config_overrides`) against `Tup.Config.construct`
   through drv_misc: every option's effective value and `get_provenance` string, or the error
   class and the option it names.  `to_toml_string` against `Tup.Config.dump` on the typed channel.
F: judged on the implementation's own behaviour, by the clauses of the statement:
   precedence      the multi-layer value equals what the winning layer (Spec.Config.winner) alone
                   gives, and the provenance names that layer (Spec.Config.provenanceNames);
   same-text       a value accepted natively is accepted, with the same effective value, from its
                   textual form in every layer (env, kwargs, config_overrides, file as a string and,
                   for int/float/bool options, as the bare TOML literal);
   wrong-type      a value whose type the option does not admit is rejected, and the error message
                   names the option;
   toml-roundtrip  dump -> load reproduces every option (override_from_toml_string, file layer, CLI).
"""
from __future__ import annotations

import json
import re
import typing
from fractions import Fraction
from pathlib import Path

import toml

from .common import Ctx, ToolFailure, REPO
from .ptyhost import PtyHost, PtyHostError, enc

DRIVERS = ["drv_misc"]
EVIDENCE = dict(
    level="proof",
    trusted=[
        "the `toml` 0.10.2 package as an identity channel on typed values (it mis-escapes a backslash followed by `x` in strings — "
        "third-party; generated strings contain no backslashes)",
        "Python's int()/float() on the generated numeric strings (model: sign, digits, underscores, decimal point, exponent); "
        "float values are compared as exact rationals rounded once to double",
        "harness/ptyhost.py and the OS environment/tty layer",
        "Spec.Config (winner, provenanceNames, textOf) is a transcription of the property statement",
    ],
)

LAYERS = ["file", "env", "kwargs", "overrides"]
_host: PtyHost | None = None


def host() -> PtyHost:
    global _host
    if _host is None:
        _host = PtyHost(rows=24, cols=80)
        if not _host.hello["tupimage_file"].startswith(str(REPO)):
            raise ToolFailure(f"pty child imported {_host.hello['tupimage_file']}, expected {REPO}")
    return _host


def close_host():
    global _host
    if _host is not None:
        _host.close()
    _host = None


# ------------------------------------------------------------------------------------------------
# values: case JSON uses ptyhost's `enc` form; the driver uses a compact token form
# ------------------------------------------------------------------------------------------------
def hexs(s: str) -> str:
    return s.encode("utf-8", "surrogatepass").hex()


def _sc_tok(j) -> str:
    if j is None:
        return "N"
    if isinstance(j, bool):
        return "B1" if j else "B0"
    if isinstance(j, int):
        return f"I{j};"
    if isinstance(j, float):
        fr = Fraction(j)
        return f"F{fr.numerator}/{fr.denominator};"
    if isinstance(j, str):
        return f"S{hexs(j)};"
    if isinstance(j, list):
        return f"O{hexs('list')};"
    if isinstance(j, dict):
        t = j.get("$")
        return f"O{hexs({'tuple': 'tuple', 'bytes': 'bytes', 'dict': 'dict'}.get(t, j.get('cls') or t or 'dict'))};"
    raise ValueError(j)


def tok(j) -> str:
    """enc-JSON value -> driver token"""
    if isinstance(j, list):
        return "L" + "".join(_sc_tok(x) for x in j) + "]"
    if isinstance(j, dict):
        t = j.get("$")
        if t == "tuple":
            return "T" + "".join(_sc_tok(x) for x in j["v"]) + "]"
        if t == "IDSpace":
            return f"P{j['v'][0]},{1 if j['v'][1] else 0};"
        if t == "IDSubspace":
            return f"U{j['v'][0]},{j['v'][1]};"
        if t == "TransmissionMedium":
            return "M" + j["v"]
    return _sc_tok(j)


def canon_tok(t: str) -> str:
    """model token -> comparable with the token of the implementation's value: floats rounded once to double"""
    def fix(m):
        n, d = int(m.group(1)), int(m.group(2))
        try:
            fr = Fraction(float(Fraction(n, d)))
        except OverflowError:
            return m.group(0)
        return f"F{fr.numerator}/{fr.denominator};"
    return re.sub(r"F(-?\d+)/(\d+);", fix, t)


def entries_tok(es) -> str:
    return "|".join(f"{k}={tok(v)}" for k, v in es) if es else "-"


def plain(j):
    """enc-JSON -> plain Python for toml.dumps (no repo types can be written into a TOML file)"""
    if isinstance(j, dict):
        if j.get("$") == "tuple":
            return [plain(x) for x in j["v"]]     # TOML has no tuples: written as an array
        raise ValueError("not TOML-able")
    if isinstance(j, list):
        return [plain(x) for x in j]
    return j


def tomlable(j) -> bool:
    if j is None or (isinstance(j, dict) and j.get("$") != "tuple"):
        return False
    if isinstance(j, dict):
        return False     # a tuple cannot be written either (an array would be a different value)
    if isinstance(j, list):
        return all(tomlable(x) and not isinstance(x, list) for x in j) and len({type(x) for x in j}) <= 1
    if isinstance(j, str):
        return "\\" not in j
    return True


# ------------------------------------------------------------------------------------------------
# option classes (read from the annotations of the tree under test, independently of the Lean table)
# ------------------------------------------------------------------------------------------------
def option_classes() -> dict:
    from tupimage.tupimage_terminal import TupimageConfig
    out = {}
    for name, ann in TupimageConfig.__annotations__.items():
        args = typing.get_args(ann)
        org = typing.get_origin(ann)
        names = [getattr(a, "__name__", str(a)) for a in (args if org is typing.Union else (ann,))]
        auto = any("Literal['auto']" in str(a) for a in args) if org is typing.Union else False
        if name == "background":
            c = "background"
        elif org is tuple or any(typing.get_origin(a) is tuple for a in args):
            c = "size"
        elif any(typing.get_origin(a) is list for a in args) or org is list:
            c = "formats"
        elif "IDSpace" in names:
            c = "space"
        elif "IDSubspace" in names:
            c = "subspace"
        elif "TransmissionMedium" in names:
            c = "medium"
        elif "bool" in names:
            c = "bool"
        elif "int" in names:
            c = "int"
        elif "float" in names:
            c = "float"
        elif "str" in names:
            c = "str"
        else:
            c = "other"
        out[name] = c + ("|auto" if auto else "")
    return out


T = lambda *xs: {"$": "tuple", "v": list(xs)}
SP = lambda cb, u3: {"$": "IDSpace", "v": [cb, u3]}
SUB = lambda b, e: {"$": "IDSubspace", "v": [b, e]}
MED = lambda l: {"$": "TransmissionMedium", "v": l}


def valid_values(name: str, cls: str) -> list:
    """native values the option is documented to take (enc form), distinct from each other"""
    base = cls.split("|")[0]
    if base == "int":
        if name == "max_rows":
            v = [1, 2, 24, 255, 256]
        elif name == "num_tmux_layers":
            v = [0, 1, 2, 3]
        else:
            v = [1, 5, 80, 4096, 65536, 2 ** 40]
    elif base == "float":
        v = [0.5, 1.0, 1.5, 2.0, 3.25, 0.001, 123456.789]
    elif base == "bool":
        v = [True, False]
    elif base == "size":
        v = [T(8, 16), T(1, 1), T(10, 20), T(33, 17), T(1000, 2)]
    elif base == "space":
        v = [SP(0, True), SP(8, True), SP(24, True), SP(8, False), SP(24, False)]
    elif base == "subspace":
        v = [SUB(0, 256), SUB(1, 2), SUB(0, 2), SUB(5, 9), SUB(255, 256), SUB(100, 200)]
    elif base == "medium":
        v = [MED("d"), MED("f"), MED("t"), MED("s")]
    elif base == "formats":
        v = [["png"], ["png", "jpeg"], ["a", "b", "c"], ["gif", "png"]]
    elif base == "str":
        v = (["/tmp/ptyhost_x/ids", "rel/dir", "dir with space"] if name.endswith("_dir")
             else ["X", "\U0010eeee", "ab", "é", "#"])
    elif base == "background":
        v = ["none", "red", "#ff0000", 5, 200, "None"]
    else:
        v = []
    return v + (["auto"] if cls.endswith("|auto") else [])


def text_of(j) -> str | None:
    """the textual form of a typed value (what one writes in an environment variable)"""
    if isinstance(j, bool):
        return "true" if j else "false"
    if isinstance(j, int):
        return str(j)
    if isinstance(j, float):
        return repr(j)
    if isinstance(j, str):
        return j
    if isinstance(j, list):
        return ",".join(j) if j and all(isinstance(x, str) and x and not re.search("[, ]", x) for x in j) else None
    if isinstance(j, dict):
        t, v = j.get("$"), j.get("v")
        if t == "tuple" and len(v) == 2:
            return f"{v[0]}x{v[1]}"
        if t == "IDSpace":
            return {(24, True): "32bit", (24, False): "24bit", (8, True): "16bit", (8, False): "8bit", (0, True): "8bit_diacritic"}.get((v[0], v[1]))
        if t == "IDSubspace":
            return f"{v[0]}:{v[1]}"
        if t == "TransmissionMedium":
            return v
    return None


def alt_texts(cls: str) -> list:
    """other spellings the parsers accept / reject (correspondence only)"""
    base = cls.split("|")[0]
    return {
        "int": ["5", "+5", "007", " 12 ", "1_000", "-3", "0", "257", "12a", "1.5", "", " ", "0x10", "1__0", "_1", "1e3"],
        "float": ["2", "1.5", "1e3", ".5", "5.", "-0.25", "+3.0e-2", "1_0.5", "abc", "", "1.5.2", "e5", ".", "1e", "--1"],
        "bool": ["true", "false", "True", "FALSE", "yes", "No", "on", "OFF", "1", "0", "maybe", "", "t", " true"],
        "size": ["8x16", "1x1", "+8x16", " 8 x 16 ", "0x5", "8x0", "-1x5", "8x", "x8", "8", "axb", "8x16x2", "8X16", "1_0x2", ""],
        "space": ["32", "32bit", "24", "24bit", "8d", "8bit_diacritic", "8", "8bit", "256", "16", "16d", "16bit", "16bit_diacritic", "x", "33", " 32", ""],
        "subspace": ["0:256", "1:2", "", "5:9", " 5 : 9 ", "+1:+2", "0:1", "5:5", "6:5", "0:257", "-1:5", "5", "1:2:3", "a:b", ":", "1:", "0:2_5_6"],
        "medium": ["d", "direct", "stream", "f", "file", "t", "temp", "tempfile", "s", "shm", "x", "D", "", "shared"],
        "formats": ["png", "png,jpeg", "png, jpeg", "png jpeg", "a,,b", ",a", "a,", " ", ","],
        "str": ["", "auto", "x y", "5"],
        "background": ["5", "005", "-5", "5.0", "", "auto"],
    }.get(base, [])


def wrong_values(cls: str) -> list:
    """(label, value) pairs whose *type* the option does not admit"""
    base = cls.split("|")[0]
    common = {"list": [1], "bytes": {"$": "bytes", "v": "00"}, "dict": {"$": "dict", "v": []}}
    spec = {
        "int": {"bool": True, "float": 1.5, "word": "abc", "float-text": "1.5", "tuple": T(1, 2), "empty-text": ""},
        "float": {"bool": True, "word": "abc", "empty-text": "", "tuple": T(1.0)},
        "bool": {"int": 1, "zero": 0, "float": 1.0, "word": "maybe", "number-text": "2", "empty-text": ""},
        "size": {"list": [8, 16], "one": T(8), "three": T(8, 16, 2), "str-items": T("8", "16"), "bool-item": T(True, 2), "float-item": T(8.0, 16),
                 "int": 8, "number-text": "8", "half-text": "8x", "word": "axb", "float": 1.5},
        "space": {"int": 24, "bool": True, "word": "x", "list": ["32bit"], "float": 24.0},
        "subspace": {"int": 5, "number-text": "5", "word": "a:b", "list": [0, 256], "tuple": T(0, 256)},
        "medium": {"int": 1, "word": "x", "list": ["d"], "bool": True},
        "formats": {"int": 5, "mixed-list": ["png", 1], "bool": True, "tuple": T("png")},
        "str": {"int": 5, "bool": True, "list": ["a"], "float": 1.5},
        "background": {"float": 1.5, "list": [1], "tuple": T(1), "bool": True},
    }.get(base, {})
    out = dict(common)
    if base == "background":
        del out["bytes"]          # bytes is one of the declared alternatives
    out.update(spec)
    return sorted(out.items())


# ------------------------------------------------------------------------------------------------
# running a constructor scenario
# ------------------------------------------------------------------------------------------------
def env_name(opt: str) -> str:
    return "TUPIMAGE_" + opt.upper()


def run_impl(sc: dict) -> dict:
    """sc: {file: [[k, v]..]|None, file_via: 'env'|'arg', env: {opt: str}, kwargs: [[k,v]..], kw_label, overrides: [[k,v]..], ov_label, tmux}"""
    h = host()
    h.setenv(clear_prefix="TUPIMAGE_", unset=["TMUX"])
    envset = {env_name(k): v for k, v in (sc.get("env") or {}).items()}
    if sc.get("tmux"):
        envset["TMUX"] = "/tmp/fake,1,0"
        envset["TERM"] = "tmux-256color"
    else:
        envset["TERM"] = "xterm-256color"
    ctor = {}
    path = None
    if sc.get("file") is not None:
        path = str(h.dir / "config" / "c17.toml")
        text = sc.get("file_text")
        if text is None:
            text = "".join(toml.dumps({k: plain(v)}) for k, v in sc["file"])
        Path(path).write_text(text, encoding="utf-8")
        if sc.get("file_via", "env") == "env":
            envset["TUPIMAGE_CONFIG"] = path
        else:
            ctor["config"] = path
    if envset:
        h.setenv(envset)
    for k, v in sc.get("kwargs") or []:
        ctor[k] = v
    if sc.get("kw_label") is not None:
        ctor["provenance"] = sc["kw_label"]
    if sc.get("overrides") is not None:
        ov = {"$": "dict", "v": [[k, v] for k, v in sc["overrides"]] + ([["provenance", sc["ov_label"]]] if sc.get("ov_label") is not None else [])}
        ctor["config_overrides"] = ov
    ctor["id_database"] = str(h.dir / "state" / "c17.db")
    r = h.request("new", kwargs=_enc_kwargs(ctor, h))
    if "tool_error" in r:
        raise ToolFailure(r["tool_error"])
    if "error" in r:
        return {"error": r["error"], "path": path}
    c = h.request("config", _raw=True)
    if "ok" not in c:
        raise ToolFailure(f"config(): {c}")
    top = _undict(c["ok"])
    return {"config": {"values": _undict(top["values"]), "provenance": _undict(top["provenance"])}, "path": path}


def _enc_kwargs(ctor: dict, h) -> dict:
    # values are already in enc form; only wrap the kwargs dict itself
    return {"$": "dict", "v": [[k, v] for k, v in ctor.items()]}


def _undict(j) -> dict:
    """{"$":"dict","v":[[k, v],..]} -> {k: v} (values stay in transport form)"""
    return {k: v for k, v in j["v"]}


def impl_summary(res: dict, names: list) -> dict:
    """canonical view of an implementation result: per option (token, provenance) or an error class"""
    if "error" in res:
        e = res["error"]
        return {"error": e["type"], "msg": e["msg"]}
    vals = res["config"]["values"]
    prov = res["config"]["provenance"]
    return {"values": {n: tok(vals[n]) for n in names}, "prov": {n: prov[n] for n in names}}


def run_model(ctx: Ctx, sc: dict, path: str | None) -> dict:
    d = ctx.driver("drv_misc")
    h = host()
    state_dir = str(h.dir / "state" / "tupimage")
    file_tok = "_" if sc.get("file") is None else f"{hexs(path)}:{entries_tok(sc['file'])}"
    env_tok = entries_tok([[k, v] for k, v in (sc.get("env") or {}).items()])
    kw = list(sc.get("kwargs") or []) + ([["provenance", sc["kw_label"]]] if sc.get("kw_label") is not None else [])
    ov = list(sc.get("overrides") or []) + ([["provenance", sc["ov_label"]]] if sc.get("ov_label") is not None else [])
    line = f"c17 ctor {hexs(state_dir)} {1 if sc.get('tmux') else 0} {file_tok} {env_tok} {entries_tok(kw)} {entries_tok(ov)}"
    r = d.ask(line)
    if r.startswith("ok "):
        vals, prov = {}, {}
        for item in r[3:].split("|"):
            k, rest = item.split("=", 1)
            v, p = rest.rsplit("@", 1)
            vals[k] = canon_tok(v)
            prov[k] = bytes.fromhex(p).decode("utf-8", "replace")
        return {"values": vals, "prov": prov}
    if r.startswith("err "):
        return {"error": r[4:]}
    raise ToolFailure(f"driver: {r!r} for {line[:300]}")


def names_option(msg: str, opt: str) -> bool:
    return re.search(r"(?<![A-Za-z0-9_])" + re.escape(opt) + r"(?![A-Za-z0-9_])", msg) is not None


def compare_K(ctx: Ctx, case: dict, sc: dict, res: dict, what="constructor") -> dict:
    names = list(res["config"]["values"]) if "config" in res else []
    impl = impl_summary(res, names)
    model = run_model(ctx, sc, res.get("path"))
    if "error" in impl:
        m = impl["msg"]
        if impl["error"] == "KeyError" and "Unknown config keys" in m:
            ic = "keys"
        elif impl["error"] == "KeyError" and "Unknown config key" in m:
            ic = "key"
        elif impl["error"] == "ValueError":
            named = [n for n in OPTS if names_option(m, n)]
            ic = "invalid " + (named[0] if len(named) == 1 else "?" + ",".join(named))
        else:
            ic = "other:" + impl["error"]
        mc = model.get("error", "ok")
        mc = "key" if mc.startswith("key ") else mc
        ctx.eq(what + ": error", case, ic, mc)
    elif "error" in model:
        ctx.mismatch(what + ": model rejects, implementation accepts", case, {n: impl["values"][n] for n in list(impl["values"])[:0]} or "ok", model["error"])
    else:
        for n in names:
            if n not in model["values"]:
                ctx.mismatch(what + ": option missing in the Lean table (regenerate Gen/Options.lean)", case, n, None)
                continue
            if impl["values"][n] != model["values"][n]:
                ctx.mismatch(what + ": value of " + n, case, impl["values"][n], model["values"][n])
            if impl["prov"][n] != model["prov"][n]:
                ctx.mismatch(what + ": provenance of " + n, case, impl["prov"][n], model["prov"][n])
    return impl


OPTS: dict = {}


def single(layer: str, opt: str, v, **extra) -> dict:
    sc = {"file": None, "env": {}, "kwargs": [], "overrides": None}
    sc.update(extra)
    if layer == "file":
        sc["file"] = [[opt, v]]
    elif layer == "env":
        sc["env"] = {opt: v}
    elif layer == "kwargs":
        sc["kwargs"] = [[opt, v]]
    else:
        sc["overrides"] = [[opt, v]]
    return sc


# ------------------------------------------------------------------------------------------------
def check_case(ctx: Ctx, c: dict):
    global OPTS
    if not OPTS:
        OPTS = option_classes()
    try:
        _check_case(ctx, c)
    except PtyHostError as e:
        close_host()
        raise ToolFailure(str(e))


def _check_case(ctx: Ctx, c: dict):
    d = ctx.driver("drv_misc")
    k = c["k"]
    ctx.count("kind:" + k)
    if k == "ctor":
        sc = c["sc"]
        res = run_impl(sc)
        impl = compare_K(ctx, c, sc, res)
        ctx.count("ctor:" + ("error:" + impl["error"] if "error" in impl else "ok"))
        if "error" in impl:
            return
        # F precedence, for the options some layer sets
        setters = {}
        for layer in LAYERS:
            ent = sc.get(layer)
            items = list(ent.items()) if isinstance(ent, dict) else (ent or [])
            for name, v in items:
                if name in OPTS and v is not None:
                    setters.setdefault(name, {})[layer] = v
        for name, by in list(setters.items())[: c.get("judge", 3)]:
            s = [1 if l in by else 0 for l in LAYERS]
            ctx.count("layers-set:" + "".join(map(str, s)))
            w = d.ask(f"c17 winner {s[0]} {s[1]} {s[2]} {s[3]}")
            alone = run_impl(single(w, name, by[w], file_via=sc.get("file_via", "env"), tmux=sc.get("tmux"),
                                    kw_label=sc.get("kw_label") if w == "kwargs" else None,
                                    ov_label=sc.get("ov_label") if w == "overrides" else None))
            if "error" in alone:
                ctx.violation("the winning layer's value is rejected on its own but accepted in combination", c,
                              {"option": name, "winner": w, "error": alone["error"]}, key="precedence:alone-rejected")
                continue
            va = tok(alone["config"]["values"][name])
            if impl["values"][name] != va:
                ctx.violation("effective value is not the one given by the highest-priority layer that sets the option", c,
                              {"option": name, "winner": w, "effective": impl["values"][name], "winner_alone": va, "set_by": sorted(by)},
                              key="precedence:value")
            p = impl["prov"][name]
            okp = d.ask(f"c17 prov {w} {name} {hexs(res['path']) if res.get('path') else '-'} "
                        f"{hexs(sc['kw_label']) if sc.get('kw_label') is not None else '_'} "
                        f"{hexs(sc['ov_label']) if sc.get('ov_label') is not None else '_'} {hexs(p)}")
            expanded = name == "num_tmux_layers" and p.startswith("expanded from 'auto' (")
            if expanded:
                okp = d.ask(f"c17 prov {w} {name} {hexs(res['path']) if res.get('path') else '-'} "
                            f"{hexs(sc['kw_label']) if sc.get('kw_label') is not None else '_'} "
                            f"{hexs(sc['ov_label']) if sc.get('ov_label') is not None else '_'} {hexs(p[len('expanded from auto ()') + 1:-1])}")
            if okp != "1":
                ctx.violation("the reported provenance does not name the layer in force", c,
                              {"option": name, "winner": w, "provenance": p}, key="precedence:provenance")
        # options nobody set keep provenance 'default'
        for name in OPTS:
            if name not in setters and impl["prov"][name] != "default" and not impl["prov"][name].startswith("expanded from 'auto' (default)"):
                ctx.violation("an option no layer sets does not report the default provenance", c,
                              {"option": name, "provenance": impl["prov"][name]}, key="precedence:default-provenance")
    elif k == "text":
        name, v = c["opt"], c["value"]
        cls = OPTS.get(name, "other")
        nl = c.get("native_layer", "kwargs")
        native = run_impl(single(nl, name, v))
        compare_K(ctx, c, single(nl, name, v), native, "native value")
        if c.get("component") is not None:
            ctx.count(f"component:{cls.split('|')[0]}:{c['component']}:native:" + ("rejected" if "error" in native else "accepted"))
        if "error" in native:
            ctx.count("text:native-rejected")
            return
        eff = native["config"]["values"][name]
        text = text_of(eff)
        spec_text = d.ask(f"c17 text {tok(eff)}")
        if not isinstance(eff, float) and spec_text != ("_" if text is None else f"S{hexs(text)};"):
            raise ToolFailure(f"harness text_of and Spec.Config.textOf disagree on {eff!r}: {text!r} vs {spec_text}")
        if text is None:
            ctx.count("text:no-textual-form")
            return
        efft = tok(eff)
        forms = [("env", single("env", name, text)), ("kwargs", single("kwargs", name, text)),
                 ("overrides", single("overrides", name, text))]
        if "\\" not in text:
            forms.append(("file-string", single("file", name, text)))
        base = cls.split("|")[0]
        if base in ("int", "float", "bool") and re.fullmatch(r"[+-]?\d+|[+-]?\d+\.\d+(e[+-]?\d+)?|[+-]?\d+e[+-]?\d+|true|false", text):
            forms.append(("file-literal", dict(single("file", name, None), file=[[name, toml.loads(f"x = {text}")["x"]]],
                                               file_text=f"{name} = {text}\n")))
        for lname, sc in forms:
            r = run_impl(sc)
            compare_K(ctx, dict(c, layer=lname), sc, r, "textual form")
            ctx.count(f"text:{cls}:{lname}")
            if "error" in r:
                ctx.violation(f"a value accepted for the option is rejected in its textual form from the {lname} layer",
                              dict(c, layer=lname), {"text": text, "class": cls, "error": r["error"]["msg"][:200]},
                              key=f"same-text:{cls}:{lname.split('-')[0]}")
            elif tok(r["config"]["values"][name]) != efft:
                ctx.violation(f"the textual form means a different value in the {lname} layer", dict(c, layer=lname),
                              {"text": text, "class": cls, "native": efft, "from_text": tok(r["config"]["values"][name])},
                              key=f"same-text-value:{cls}:{lname.split('-')[0]}")
    elif k == "alt":
        name, text, layer = c["opt"], c["text"], c["layer"]
        sc = single(layer, name, text)
        r = run_impl(sc)
        compare_K(ctx, c, sc, r, "string form")
        if c.get("component") is not None:
            ctx.count(f"component:{OPTS.get(name, 'other').split('|')[0]}:{c['component']}:text:" + ("rejected" if "error" in r else "accepted"))
    elif k == "envtext":
        # a text the environment layer accepts must mean the same in every other layer, incl. as a bare TOML literal
        name, text = c["opt"], c["text"]
        cls = OPTS.get(name, "other")
        base = cls.split("|")[0]
        r0 = run_impl(single("env", name, text))
        if "error" in r0:
            ctx.count("envtext:rejected-by-env")
            return
        v0 = tok(r0["config"]["values"][name])
        forms = [("kwargs", single("kwargs", name, text)), ("overrides", single("overrides", name, text))]
        if "\\" not in text:
            forms.append(("file-string", single("file", name, text)))
        if base in ("int", "float", "bool"):
            try:
                lit = toml.loads(f"x = {text}")["x"]
            except Exception:
                lit = None
            if isinstance(lit, (bool, int, float)):
                forms.append(("file-literal", dict(single("file", name, None), file=[[name, lit]], file_text=f"{name} = {text}\n")))
        for lname, sc in forms:
            r = run_impl(sc)
            compare_K(ctx, dict(c, layer=lname), sc, r, "env text elsewhere")
            ctx.count(f"envtext:{base}:{lname}")
            if "error" in r:
                ctx.violation(f"a text the environment layer accepts is rejected from the {lname} layer", dict(c, layer=lname),
                              {"text": text, "class": cls, "error": r["error"]["msg"][:200]}, key=f"env-text:{base}:{lname}")
            elif tok(r["config"]["values"][name]) != v0:
                ctx.violation(f"a text the environment layer accepts means a different value in the {lname} layer", dict(c, layer=lname),
                              {"text": text, "class": cls, "env": v0, "here": tok(r["config"]["values"][name])}, key=f"env-text-value:{base}:{lname}")
    elif k == "wrong":
        name, v, layer, label = c["opt"], c["value"], c["layer"], c["label"]
        cls = OPTS.get(name, "other")
        sc = single(layer, name, v)
        r = run_impl(sc)
        compare_K(ctx, c, sc, r, "wrong-type value")
        ctx.count(f"wrong:{cls.split('|')[0]}:{label}:{'rejected' if 'error' in r else 'ACCEPTED'}")
        if c.get("component") is not None:
            ctx.count(f"component:{cls.split('|')[0]}:{c['component']}:native:" + ("rejected" if "error" in r else "ACCEPTED"))
        if "error" not in r:
            ctx.violation("a value of a type the option does not admit is accepted", c,
                          {"class": cls, "value_class": label, "effective": tok(r["config"]["values"][name])},
                          key=f"wrong-type-accepted:{cls.split('|')[0]}:{label}")
        elif not names_option(r["error"]["msg"], name):
            ctx.violation("the error for a wrong-type value does not name the option", c,
                          {"class": cls, "value_class": label, "error": r["error"]["type"] + ": " + r["error"]["msg"][:200]},
                          key=f"error-does-not-name-option:{cls.split('|')[0]}")
    elif k == "toml":
        sc = c["sc"]
        res = run_impl(sc)
        impl = compare_K(ctx, c, sc, res, "constructor (toml case)")
        if c.get("component") is not None:
            ctx.count("component:size:" + c["component"].split(":")[-1] + ":toml-roundtrip:" + ("not-accepted" if "error" in impl else "accepted"))
        if "error" in impl:
            ctx.count("toml:ctor-error")
            return
        h = host()
        before = {n: tok(res["config"]["values"][n]) for n in res["config"]["values"]}
        for mode in c.get("modes", ["plain", "provenance", "skip_default"]):
            kw = {"plain": {}, "provenance": {"with_provenance": True}, "skip_default": {"skip_default": True},
                  "cli": {}}[mode]
            if mode == "cli":
                dump = h.run("import subprocess, sys, os\n"
                             "r = subprocess.run([sys.executable, '-m', 'tupimage.cli', 'dump-config', '--no-provenance'], capture_output=True,"
                             " env=dict(os.environ, PYTHONPATH=repo), text=True)\nresult = [r.returncode, r.stdout, r.stderr[-500:]]\n", repo=str(REPO))
                if "ok" not in dump or dump["ok"][0] != 0:
                    raise ToolFailure(f"tupimage.cli dump-config failed: {dump}")
                # the CLI builds its own terminal from file+env only: compare with the same scenario without call-time layers
                if sc.get("kwargs") or sc.get("overrides"):
                    continue
                dump = {"ok": dump["ok"][1]}
            else:
                dump = h.call("_config.to_toml_string", **kw)
            if "ok" not in dump:
                ctx.violation("the configuration cannot be dumped as TOML", dict(c, mode=mode), dump.get("error"), key="toml-roundtrip:dump-raises")
                continue
            text = dump["ok"]
            # K: the dump on the typed channel
            if mode == "plain":
                try:
                    parsed = toml.loads(text)
                except Exception as e:   # third-party parser on the library's output
                    parsed = None
                    ctx.violation("the dumped configuration is not valid TOML", c, {"error": str(e), "dump": text[:400]}, key="toml-roundtrip:invalid-toml")
                if parsed is not None:
                    md = d.ask("c17 dump " + entries_tok([[n, res["config"]["values"][n]] for n in res["config"]["values"]]))
                    want = entries_tok([[n, parsed[n]] for n in parsed])
                    ctx.eq("to_toml_string (typed channel)", c, want, "|".join(f"{kv.split('=')[0]}={canon_tok(kv.split('=', 1)[1])}" for kv in md.split("|")))
            # load into a fresh configuration object
            r = h.run(_raw=True, source="cfg = tupimage.TupimageConfig()\ncfg.override_from_toml_string(text)\n"
                      "result = {n: getattr(cfg, n) for n in type(cfg).__annotations__}\n", text=text)
            ctx.count("toml:" + mode)
            if "ok" not in r:
                ctx.violation("the dumped configuration cannot be loaded back", dict(c, mode=mode),
                              {"error": r.get("error"), "dump": text[:600]}, key="toml-roundtrip:load-raises")
                continue
            after = {n: tok(v) for n, v in _undict(r["ok"]).items()}
            if mode == "skip_default":
                # options left out are the ones reporting 'default': they must equal a fresh default
                pass
            diff = {n: [before[n], after.get(n)] for n in before if before[n] != after.get(n)}
            if diff:
                ctx.violation("dump -> load does not reproduce every option", dict(c, mode=mode), {"differs": diff, "dump": text[:600]},
                              key="toml-roundtrip:" + ",".join(sorted(OPTS.get(n, "other").split("|")[0] for n in diff)))
            # and through the file layer of a new terminal
            if mode == "plain":
                sc2 = {"file": [], "file_text": text, "env": {}, "kwargs": [], "overrides": None, "tmux": sc.get("tmux")}
                r2 = run_impl(sc2)
                if "error" in r2:
                    ctx.violation("the dumped configuration is rejected as a config file", c, {"error": r2["error"], "dump": text[:600]},
                                  key="toml-roundtrip:file-rejected")
                    # the failed constructor left the child without a terminal: give the remaining dump modes the original one back
                    if "error" in run_impl(sc):
                        break
                else:
                    after2 = {n: tok(v) for n, v in r2["config"]["values"].items()}
                    diff = {n: [before[n], after2.get(n)] for n in before if before[n] != after2.get(n)}
                    if diff:
                        ctx.violation("dump -> config file -> constructor does not reproduce every option", c, {"differs": diff},
                                      key="toml-roundtrip-file:" + ",".join(sorted(OPTS.get(n, "other").split("|")[0] for n in diff)))
    else:
        raise ValueError(k)


# ------------------------------------------------------------------------------------------------
# structured values, one COMPONENT at a time
# ------------------------------------------------------------------------------------------------
# value classes of one component of a structured value (label, value, is the TYPE wrong for an int component?)
INT_COMPONENT_CLASSES = [("zero", 0, False), ("minus-one", -1, False), ("negative", -7, False), ("one", 1, False), ("large", 2 ** 31, False),
                         ("true", True, True), ("false", False, True), ("float", 8.0, True), ("float-fraction", 0.5, True), ("none", None, True),
                         ("digit-text", "8", True)]


def _py_text(v) -> str:
    """how the component reads inside a textual form when somebody formats it the obvious way"""
    return str(v)


def component_cases(names, quick: bool):
    """For the options whose values have components (sizes `WxH`, subspaces `B:E`, format lists): every component is driven
    through every value class on its own - the other component(s) stay good - natively (kwargs, config_overrides) and in the
    textual form (env, kwargs, config_overrides, config file).  Judged by the statement only: a natively ACCEPTED value must be
    accepted with the same meaning in its textual form from every layer (`text`), must survive dump -> load (`toml`); a component
    of the wrong TYPE (bool, float, None, text, wrong arity) must be rejected naming the option (`wrong`); what a text means is
    compared with the model in every layer (`alt`) and between the layers (`envtext`)."""
    text_layers = ["env", "kwargs", "overrides", "file"]
    for name in names:
        base = OPTS[name].split("|")[0]
        if base == "size":
            good = (8, 16)
            for i in (0, 1):
                for label, bad, wrong_type in INT_COMPONENT_CLASSES:
                    comp = f"{'WH'[i]}={label}"
                    items = list(good)
                    items[i] = bad
                    v = T(*items)
                    if wrong_type:
                        for layer in ("kwargs", "overrides"):
                            yield {"k": "wrong", "opt": name, "value": v, "layer": layer, "label": "component-" + label, "component": comp}
                    else:
                        for layer in ("kwargs", "overrides"):
                            yield {"k": "text", "opt": name, "value": v, "native_layer": layer, "component": comp}
                        yield {"k": "toml", "sc": {"file": None, "env": {}, "kwargs": [[name, v]], "overrides": None}, "modes": ["plain"],
                               "component": f"{name}:{comp}"}
                    text = "x".join(_py_text(x) for x in items)
                    for layer in text_layers:
                        yield {"k": "alt", "opt": name, "text": text, "layer": layer, "component": comp}
                    yield {"k": "envtext", "opt": name, "text": text}
            # both components bad at once, and the wrong number of components
            for v in (T(0, 0), T(-1, -1), T(0, -3)):
                for layer in ("kwargs", "overrides"):
                    yield {"k": "text", "opt": name, "value": v, "native_layer": layer, "component": "both-bad"}
            for label, v in (("arity-0", T()), ("arity-1", T(8)), ("arity-3", T(8, 16, 2)), ("arity-3-bad-last", T(8, 16, 0)), ("nested", T(8, T(16)))):
                for layer in ("kwargs", "overrides"):
                    yield {"k": "wrong", "opt": name, "value": v, "layer": layer, "label": "component-" + label, "component": label}
            for text in ("8", "8x16x2", "8x16x0", "x", "8xx16"):
                for layer in text_layers:
                    yield {"k": "alt", "opt": name, "text": text, "layer": layer, "component": "arity-text"}
        elif base == "subspace":
            for i, goodv in ((0, ("{}", "9")), (1, ("5", "{}"))):
                for label, bad in (("zero", 0), ("minus-one", -1), ("last", 255), ("end", 256), ("beyond", 257), ("true", True), ("float", 1.0),
                                   ("none", None), ("word", "a"), ("empty", ""), ("equal-other", 9 if i == 0 else 5), ("past-other", 10 if i == 0 else 4)):
                    text = ":".join(goodv).format(_py_text(bad))
                    for layer in (text_layers[:2] if quick else text_layers):
                        yield {"k": "alt", "opt": name, "text": text, "layer": layer, "component": f"{'BE'[i]}={label}"}
                    yield {"k": "envtext", "opt": name, "text": text}
        elif base == "formats":
            for i in (0, 1, 2):
                for label, bad in (("int", 1), ("none", None), ("true", True), ("float", 1.5), ("list", ["png"]), ("tuple", T("png"))):
                    items = ["png", "jpeg"]
                    items.insert(i, bad)
                    for layer in ("kwargs", "overrides"):
                        yield {"k": "wrong", "opt": name, "value": items, "layer": layer, "label": "component-" + label, "component": f"item{i}={label}"}
            for text in ("png,1", "1,png", "png,,jpeg", "png, ,jpeg", ",png", "png,"):
                for layer in text_layers:
                    yield {"k": "alt", "opt": name, "text": text, "layer": layer, "component": "item-text"}
                yield {"k": "envtext", "opt": name, "text": text}


def precise_floats(rng) -> list:
    """Finite doubles whose shortest decimal form needs up to 17 significant digits, at every magnitude: a dump that keeps fewer
    digits (a fixed number of decimals, `%g`, `%f`, a short `round`) cannot give them back.  Compared bit-exactly after dump -> load
    (`tok` carries a float as its exact rational value, i.e. float.hex precision)."""
    import math
    inf = math.inf
    vals = [1 / 3, 2 / 3, 1 / 7, 0.1 + 0.2, 0.1 * 3, 1.1 * 1.1, math.pi, math.e, math.sqrt(2), 1 - 1e-16, 1 + 2 ** -52,
            # tiny: nothing left after a few decimals; subnormal and smallest normal
            2.5e-7, 1e-7 / 3, 1.2345678901234567e-5, 4.9e-10, 1e-300 / 3, 2.2250738585072014e-308, 5e-324, 3e-320,
            # huge: beyond integer precision, largest finite
            1e22 / 3, 123456789.12345679, 1e15 + 0.3, 2.0 ** 53 + 2, 1e100 / 7, 1.7976931348623157e308,
            # exponent-form boundaries of repr (1e16 / 1e-5) and their neighbours
            1e16, 9999999999999998.0, 1e-5, 9.999999999999999e-6, 0.0001]
    # the two neighbours of round decimals (one ulp away: 17 digits needed, and any rounding collapses them onto the decimal)
    for dec_ in (0.1, 0.25, 0.5, 1.0, 1.5, 2.0, 3.0, 10.0, 0.001, 100.0, 1e-6, 65536.0, 1e9):
        vals += [math.nextafter(dec_, inf), math.nextafter(dec_, -inf)]
    vals += [-v for v in (1 / 3, 0.1 + 0.2, 2.5e-7, math.nextafter(1.0, inf), 1e22 / 3, 0.5)]
    # random: uniform in everyday ranges, random magnitude, random mantissa bits
    for _ in range(12):
        vals.append(rng.uniform(0.05, 8))
        vals.append(rng.random() * 10.0 ** rng.randint(-12, 12))
        vals.append(math.ldexp(rng.getrandbits(53) | (1 << 52), rng.randint(-80, 20) - 52))
    return vals


def float_roundtrip_cases(names, rng, quick: bool):
    """Every float option carries every value of `precise_floats` at least once (rotating assignment, all float options set in
    one configuration), given natively through kwargs / config_overrides / the file layer as a bare literal or through the
    environment as repr() text; the configuration must survive dump -> load in every dump mode."""
    fopts = [n for n in names if OPTS[n].split("|")[0] == "float"]
    if not fopts:
        return
    vals = precise_floats(rng)
    reps = 1 if quick else 3
    for rep in range(reps):
        for i in range(len(vals)):
            layer = ["kwargs", "overrides", "file", "env"][(i + rep) % 4]
            items = [[n, vals[(i + j * 7 * (rep + 1)) % len(vals)] if j else vals[i]] for j, n in enumerate(fopts)]
            sc = {"file": None, "env": {}, "kwargs": [], "overrides": None}
            if layer == "env":
                sc["env"] = {n: repr(v) for n, v in items}
            elif layer == "file":
                sc["file"] = items
                sc["file_via"] = "arg" if i % 2 else "env"
            else:
                sc[layer] = items
            yield {"k": "toml", "sc": sc, "modes": ["plain", "provenance", "skip_default"] if (i + rep) % 3 == 0 else ["plain"],
                   "float_family": True}


def subsets():
    for m in range(1, 16):
        yield [LAYERS[i] for i in range(4) if m >> i & 1]


def as_layer_value(layer, v, rng):
    """present the native value `v` in `layer`: env only takes text; the file cannot hold tuples or repo objects"""
    if layer == "env":
        return text_of(v)
    if layer == "file":
        if tomlable(v):
            return v
        return text_of(v)
    if rng.random() < 0.3 and text_of(v) is not None:
        return text_of(v)
    return v


def cases(ctx: Ctx):
    global OPTS
    rng = ctx.rng
    q = ctx.quick
    OPTS = option_classes()
    names = list(OPTS)
    # 1. every option x every subset of the four layers, distinct valid values per layer
    for name in names:
        cls = OPTS[name]
        vals = valid_values(name, cls)
        if not vals:
            continue
        for sub in subsets():
            for rep in range(1 if q else 3):
                pick = rng.sample(vals, min(len(vals), len(sub))) if len(vals) >= len(sub) else [rng.choice(vals) for _ in sub]
                while len(pick) < len(sub):
                    pick.append(rng.choice(vals))
                sc = {"file": None, "env": {}, "kwargs": [], "overrides": None, "file_via": rng.choice(["env", "arg"]),
                      "kw_label": rng.choice([None, "set by the caller"]), "ov_label": rng.choice([None, "set via command line"]),
                      "tmux": rng.random() < 0.1}
                ok = True
                for layer, v in zip(sub, pick):
                    lv = as_layer_value(layer, v, rng)
                    if lv is None:
                        ok = False
                        break
                    if layer == "file":
                        sc["file"] = [[name, lv]]
                    elif layer == "env":
                        sc["env"] = {name: lv}
                    elif layer == "kwargs":
                        sc["kwargs"] = [[name, lv]]
                    else:
                        sc["overrides"] = [[name, lv]]
                if not ok:
                    continue
                # noise: another option in some layers; None entries in dict layers set nothing
                other = rng.choice([n for n in names if n != name and valid_values(n, OPTS[n])])
                ov = rng.choice(valid_values(other, OPTS[other]))
                r = rng.random()
                if r < 0.25:
                    sc["kwargs"] = sc["kwargs"] + [[other, ov]]
                elif r < 0.4 and text_of(ov) is not None:
                    sc["env"] = dict(sc["env"], **{other: text_of(ov)})
                elif r < 0.55:
                    sc["overrides"] = (sc["overrides"] or []) + [[other, None]]     # None sets nothing
                elif r < 0.65 and "kwargs" not in sub:
                    sc["kwargs"] = sc["kwargs"] + [[name, None]]
                yield {"k": "ctor", "sc": sc}
    # 2. same textual form from every layer
    for name in names:
        for v in valid_values(name, OPTS[name]):
            yield {"k": "text", "opt": name, "value": v}
    # 2b. structured values: every component through every value class on its own, native and textual, every layer
    yield from component_cases(names, q)
    # 3. other spellings (correspondence of the parsers)
    for name in names:
        texts = alt_texts(OPTS[name])
        for t in texts:
            for layer in (["env", "kwargs"] if q else ["env", "kwargs", "overrides", "file"]):
                if layer == "file" and "\\" in t:
                    continue
                yield {"k": "alt", "opt": name, "text": t, "layer": layer}
    for name in names:
        for t in alt_texts(OPTS[name]):
            yield {"k": "envtext", "opt": name, "text": t}
    # 4. wrong types
    for name in names:
        for label, v in wrong_values(OPTS[name]):
            layers = []
            if isinstance(v, str):
                layers = ["env", "kwargs", "file"]
            else:
                layers = ["kwargs", "overrides"] + (["file"] if tomlable(v) else [])
            for layer in (layers[:2] if q else layers):
                yield {"k": "wrong", "opt": name, "value": v, "layer": layer, "label": label}
    # 5. unknown keys, None, provenance label forms
    yield {"k": "ctor", "sc": {"file": [["no_such_option", 1]], "env": {}, "kwargs": [], "overrides": None}}
    yield {"k": "ctor", "sc": {"file": [["no_such_option", 1], ["ignore_unknown_attributes", True], ["scale", 2.5]], "env": {}, "kwargs": [], "overrides": None}}
    yield {"k": "ctor", "sc": {"file": [["scale", 2.5], ["no_such_option", "x"]], "env": {"scale": "3.5"}, "kwargs": [], "overrides": None}}
    yield {"k": "ctor", "sc": {"file": None, "env": {}, "kwargs": [["no_such_option", 1]], "overrides": None}}
    yield {"k": "ctor", "sc": {"file": None, "env": {}, "kwargs": [], "overrides": [["no_such_option", None], ["scale", None], ["max_cols", 5]]}}
    yield {"k": "ctor", "sc": {"file": [], "env": {}, "kwargs": [], "overrides": []}}
    yield {"k": "ctor", "sc": {"file": None, "env": {"num_tmux_layers": "auto"}, "kwargs": [], "overrides": None, "tmux": True}}
    yield {"k": "ctor", "sc": {"file": None, "env": {}, "kwargs": [["num_tmux_layers", "auto"]], "kw_label": "lbl", "overrides": None, "tmux": False}}
    # 6. many options at once, all layers
    for _ in range(60 if q else 600):
        sc = {"file": [], "env": {}, "kwargs": [], "overrides": [], "file_via": rng.choice(["env", "arg"]),
              "kw_label": rng.choice([None, "kw"]), "ov_label": rng.choice([None, "set via command line"]), "tmux": rng.random() < 0.2}
        for name in rng.sample(names, rng.randint(2, 10)):
            vals = valid_values(name, OPTS[name])
            if not vals:
                continue
            for layer in rng.sample(LAYERS, rng.randint(1, 4)):
                lv = as_layer_value(layer, rng.choice(vals), rng)
                if lv is None:
                    continue
                if layer == "env":
                    sc["env"][name] = lv
                else:
                    sc[layer].append([name, lv])
        if not sc["file"] and rng.random() < 0.5:
            sc["file"] = None
        yield {"k": "ctor", "sc": sc, "judge": 4}
    # 7. TOML round trip of generated configurations
    for i in range(40 if q else 400):
        sc = {"file": None, "env": {}, "kwargs": [], "overrides": None, "tmux": rng.random() < 0.2}
        for name in rng.sample(names, rng.randint(0, 12) if i else 0):
            vals = valid_values(name, OPTS[name])
            if vals:
                sc["kwargs"].append([name, rng.choice(vals)])
        if rng.random() < 0.4:
            sc["kwargs"].append(["id_database_dir", rng.choice(["quo\"te", "tab\there", "unié中", "a'b", "hash # not comment", "x=y", "[sec]", "line\nbreak"])])
        if rng.random() < 0.3:
            sc["kwargs"] = [kv for kv in sc["kwargs"] if kv[0] != "supported_formats"] + [["supported_formats", rng.choice([[], ["a b"], ["x,y"], ["é"]])]]
        modes = ["plain", "provenance", "skip_default"]
        yield {"k": "toml", "sc": sc, "modes": modes}
    for i in range(2 if q else 12):
        sc = {"file": [["scale", 2.5], ["max_cols", 33]] if i % 2 else None, "env": {"max_rows": "7"} if i % 3 else {}, "kwargs": [], "overrides": None}
        yield {"k": "toml", "sc": sc, "modes": ["cli"]}
    # 7b. TOML round trip of float options whose values need all 17 significant digits (bit-exact comparison)
    yield from float_roundtrip_cases(names, rng, q)


def run(ctx: Ctx):
    ctx.rule = ("cases: every option (table read from TupimageConfig.__annotations__) x every non-empty subset of the four layers with "
                "distinct valid values per layer (+ noise options, None entries, labelled/unlabelled dictionaries, config via TUPIMAGE_CONFIG or "
                "config=path, inside/outside tmux); every valid value class x its textual form from env/kwargs/overrides/file-string/"
                "file-literal; STRUCTURED values one component at a time (sizes WxH: each of W, H through zero / -1 / negative / 1 / 2^31 / True / "
                "False / float / None / digit text with the other component good, both bad, arity 0/1/3, nested - natively through kwargs and "
                "config_overrides and as text through env/kwargs/overrides/file; subspaces B:E: each bound through 12 classes as text; format "
                "lists: one item of each wrong type in each position): accepted natively => same text accepted everywhere with the same value "
                "and the configuration survives dump -> load, wrong-type component => rejected naming the option; alternative spellings per parser; wrong-type values per class and layer; unknown keys; multi-option "
                "multi-layer scenarios; TOML dump/load in three dump modes, through the file layer and through `python -m tupimage.cli "
                "dump-config`; FLOAT options through the round trip with values that need up to 17 significant digits (1/3, 0.1+0.2, pi, "
                "2.5e-7, subnormal / smallest normal / largest finite, 2^53+2, both one-ulp neighbours of 13 round decimals, the repr "
                "exponent-form boundaries 1e16 / 1e-5, negative, random mantissas at magnitudes 2^-80..2^20 and 1e-12..1e12), every value on "
                "every float option, given through kwargs / config_overrides / file literal / environment text, compared bit-exactly (exact "
                "rational of the double) after dump -> load. distinct = canonical JSON of the case; non-trivial = every case")
    try:
        corpus_dir = Path(__file__).resolve().parent.parent / "corpus" / "C17"
        if corpus_dir.is_dir():
            for f in sorted(corpus_dir.glob("*.json")):
                c = json.load(open(f))
                c = c.get("case", c)
                check_case(ctx, c)
                ctx.case(c)
                ctx.count("corpus")
        for c in cases(ctx):
            if ctx.time_left() < 0:
                ctx.count("skipped-over-budget")
                continue
            check_case(ctx, c)
            ctx.case(c)
    finally:
        close_host()
    ctx.assumptions += [
        "generated strings contain no backslashes (toml 0.10.2 mis-escapes a backslash followed by x — third-party)",
        "numeric strings stay inside the modelled grammar of int()/float(): ASCII sign/digits/underscores/point/exponent and surrounding "
        "ASCII whitespace; no inf/nan, no non-ASCII digits",
        "same-text is judged for values that have a textual form: floats by repr(), lists that are non-empty with non-empty items free of "
        "',' and ' ' (the empty list has no textual form — recorded as an observation, not judged)",
        "the bare TOML literal is presented only for int/float/bool options",
        "background values of class bytes/CellFormatting/RowFormatting are not generated (not TOML-able)",
    ]
