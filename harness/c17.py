"""C17 — configuration layers resolve by fixed precedence and round-trip through TOML.

K: the real `TupimageTerminal(...)` constructor hosted on a pty (harness/ptyhost.py: scrubbed
   environment with TUPIMAGE_* set per case, config file in a temp dir given through
   TUPIMAGE_CONFIG or `config=path`, `**kwargs`, `config_overrides`) against `Tup.Config.construct`
   through drv_misc: every option's effective value and `get_provenance` string, or the error
   class and the option it names.  `to_toml_string` against `Tup.Config.dump` on the typed channel.
F: judged on the implementation's own behaviour, by the clauses of the statement:
   precedence      the multi-layer value equals what the winning layer (Spec.Config.winner) alone
                   gives, and the provenance names that layer (Spec.Config.provenanceNames);
   same-text       a value accepted natively is accepted, with the same effective value, from its
                   textual form in every layer (env, kwargs, config_overrides, file as a string and,
                   for int/float/bool options, as the bare TOML literal);
   wrong-type      a value whose type the option does not admit is rejected, and the error message
                   names the option;
   toml-roundtrip  dump -> load reproduces every option (override_from_toml_string, file layer, CLI).
Shared-object cases (k = "shared"): ONE pty child keeps several objects alive — TupimageConfig objects built in code
   (pre-set through override_from_toml_string/_file, override_from_dict / override, override_from_env), 2..4 terminals
   built from them (the same object passed to several constructors, each with its own env / keyword / config_overrides
   layers), terminals built from "DEFAULT" or a file in between, later property assignments.  After EVERY step every
   object alive is inspected (each terminal's effective configuration and the caller's objects).
   F: the object the step acts on: an option some layer of THIS step sets has the winner's value and a provenance naming
      it; every other option keeps the value and provenance the object (for a constructor: the configuration it was
      given) had before.  Every OTHER object: each option's (value, provenance) pair is the one it had before the step,
      or — when it is the very object the step worked on (the unchanged constructor adopts the caller's object, so the
      terminal's configuration and the caller's object are one) — the pair of the object acted on; a value that stayed
      with a provenance that moved (or the reverse) names a layer the object never received.
   K: `c17 chain` (Tup.Config.applyFile / applyDict / applyEnv / applyAfterFile + expandTmux on one object, the
      terminal's configuration being the object it was given) against every inspected object after every step.
"""
from __future__ import annotations

import json
import re
import typing
from fractions import Fraction
from pathlib import Path

import toml

from .common import Ctx, ToolFailure, REPO
from .ptyhost import PtyHost, PtyHostError, enc

DRIVERS = ["drv_misc"]
EVIDENCE = dict(
    level="proof",
    trusted=[
        "the `toml` 0.10.2 package as an identity channel on typed values (it mis-escapes a backslash followed by `x` in strings — "
        "third-party; generated strings contain no backslashes)",
        "Python's int()/float() on the generated numeric strings (model: sign, digits, underscores, decimal point, exponent); "
        "float values are compared as exact rationals rounded once to double",
        "harness/ptyhost.py and the OS environment/tty layer",
        "Spec.Config (winner, provenanceNames, textOf) is a transcription of the property statement",
    ],
)

LAYERS = ["file", "env", "kwargs", "overrides"]
_host: PtyHost | None = None


def host() -> PtyHost:
    global _host
    if _host is None:
        _host = PtyHost(rows=24, cols=80)
        if not _host.hello["tupimage_file"].startswith(str(REPO)):
            raise ToolFailure(f"pty child imported {_host.hello['tupimage_file']}, expected {REPO}")
    return _host


def close_host():
    global _host
    if _host is not None:
        _host.close()
    _host = None


# ------------------------------------------------------------------------------------------------
# values: case JSON uses ptyhost's `enc` form; the driver uses a compact token form
# ------------------------------------------------------------------------------------------------
def hexs(s: str) -> str:
    return s.encode("utf-8", "surrogatepass").hex()


def _sc_tok(j) -> str:
    if j is None:
        return "N"
    if isinstance(j, bool):
        return "B1" if j else "B0"
    if isinstance(j, int):
        return f"I{j};"
    if isinstance(j, float):
        fr = Fraction(j)
        return f"F{fr.numerator}/{fr.denominator};"
    if isinstance(j, str):
        return f"S{hexs(j)};"
    if isinstance(j, list):
        return f"O{hexs('list')};"
    if isinstance(j, dict):
        t = j.get("$")
        return f"O{hexs({'tuple': 'tuple', 'bytes': 'bytes', 'dict': 'dict'}.get(t, j.get('cls') or t or 'dict'))};"
    raise ValueError(j)


def tok(j) -> str:
    """enc-JSON value -> driver token"""
    if isinstance(j, list):
        return "L" + "".join(_sc_tok(x) for x in j) + "]"
    if isinstance(j, dict):
        t = j.get("$")
        if t == "tuple":
            return "T" + "".join(_sc_tok(x) for x in j["v"]) + "]"
        if t == "IDSpace":
            return f"P{j['v'][0]},{1 if j['v'][1] else 0};"
        if t == "IDSubspace":
            return f"U{j['v'][0]},{j['v'][1]};"
        if t == "TransmissionMedium":
            return "M" + j["v"]
    return _sc_tok(j)


def canon_tok(t: str) -> str:
    """model token -> comparable with the token of the implementation's value: floats rounded once to double"""
    def fix(m):
        n, d = int(m.group(1)), int(m.group(2))
        try:
            fr = Fraction(float(Fraction(n, d)))
        except OverflowError:
            return m.group(0)
        return f"F{fr.numerator}/{fr.denominator};"
    return re.sub(r"F(-?\d+)/(\d+);", fix, t)


def entries_tok(es) -> str:
    return "|".join(f"{k}={tok(v)}" for k, v in es) if es else "-"


def plain(j):
    """enc-JSON -> plain Python for toml.dumps (no repo types can be written into a TOML file)"""
    if isinstance(j, dict):
        if j.get("$") == "tuple":
            return [plain(x) for x in j["v"]]     # TOML has no tuples: written as an array
        raise ValueError("not TOML-able")
    if isinstance(j, list):
        return [plain(x) for x in j]
    return j


def tomlable(j) -> bool:
    if j is None or (isinstance(j, dict) and j.get("$") != "tuple"):
        return False
    if isinstance(j, dict):
        return False     # a tuple cannot be written either (an array would be a different value)
    if isinstance(j, list):
        return all(tomlable(x) and not isinstance(x, list) for x in j) and len({type(x) for x in j}) <= 1
    if isinstance(j, str):
        return "\\" not in j
    return True


# ------------------------------------------------------------------------------------------------
# option classes (read from the annotations of the tree under test, independently of the Lean table)
# ------------------------------------------------------------------------------------------------
def option_classes() -> dict:
    from tupimage.tupimage_terminal import TupimageConfig
    out = {}
    for name, ann in TupimageConfig.__annotations__.items():
        args = typing.get_args(ann)
        org = typing.get_origin(ann)
        names = [getattr(a, "__name__", str(a)) for a in (args if org is typing.Union else (ann,))]
        auto = any("Literal['auto']" in str(a) for a in args) if org is typing.Union else False
        if name == "background":
            c = "background"
        elif org is tuple or any(typing.get_origin(a) is tuple for a in args):
            c = "size"
        elif any(typing.get_origin(a) is list for a in args) or org is list:
            c = "formats"
        elif "IDSpace" in names:
            c = "space"
        elif "IDSubspace" in names:
            c = "subspace"
        elif "TransmissionMedium" in names:
            c = "medium"
        elif "bool" in names:
            c = "bool"
        elif "int" in names:
            c = "int"
        elif "float" in names:
            c = "float"
        elif "str" in names:
            c = "str"
        else:
            c = "other"
        out[name] = c + ("|auto" if auto else "")
    return out


T = lambda *xs: {"$": "tuple", "v": list(xs)}
SP = lambda cb, u3: {"$": "IDSpace", "v": [cb, u3]}
SUB = lambda b, e: {"$": "IDSubspace", "v": [b, e]}
MED = lambda l: {"$": "TransmissionMedium", "v": l}


def valid_values(name: str, cls: str) -> list:
    """native values the option is documented to take (enc form), distinct from each other"""
    base = cls.split("|")[0]
    if base == "int":
        if name == "max_rows":
            v = [1, 2, 24, 255, 256]
        elif name == "num_tmux_layers":
            v = [0, 1, 2, 3]
        else:
            v = [1, 5, 80, 4096, 65536, 2 ** 40]
    elif base == "float":
        v = [0.5, 1.0, 1.5, 2.0, 3.25, 0.001, 123456.789]
    elif base == "bool":
        v = [True, False]
    elif base == "size":
        v = [T(8, 16), T(1, 1), T(10, 20), T(33, 17), T(1000, 2)]
    elif base == "space":
        v = [SP(0, True), SP(8, True), SP(24, True), SP(8, False), SP(24, False)]
    elif base == "subspace":
        v = [SUB(0, 256), SUB(1, 2), SUB(0, 2), SUB(5, 9), SUB(255, 256), SUB(100, 200)]
    elif base == "medium":
        v = [MED("d"), MED("f"), MED("t"), MED("s")]
    elif base == "formats":
        v = [["png"], ["png", "jpeg"], ["a", "b", "c"], ["gif", "png"]]
    elif base == "str":
        v = (["/tmp/ptyhost_x/ids", "rel/dir", "dir with space"] if name.endswith("_dir")
             else ["X", "\U0010eeee", "ab", "é", "#"])
    elif base == "background":
        v = ["none", "red", "#ff0000", 5, 200, "None"]
    else:
        v = []
    return v + (["auto"] if cls.endswith("|auto") else [])


def text_of(j) -> str | None:
    """the textual form of a typed value (what one writes in an environment variable)"""
    if isinstance(j, bool):
        return "true" if j else "false"
    if isinstance(j, int):
        return str(j)
    if isinstance(j, float):
        return repr(j)
    if isinstance(j, str):
        return j
    if isinstance(j, list):
        return ",".join(j) if j and all(isinstance(x, str) and x and not re.search("[, ]", x) for x in j) else None
    if isinstance(j, dict):
        t, v = j.get("$"), j.get("v")
        if t == "tuple" and len(v) == 2:
            return f"{v[0]}x{v[1]}"
        if t == "IDSpace":
            return {(24, True): "32bit", (24, False): "24bit", (8, True): "16bit", (8, False): "8bit", (0, True): "8bit_diacritic"}.get((v[0], v[1]))
        if t == "IDSubspace":
            return f"{v[0]}:{v[1]}"
        if t == "TransmissionMedium":
            return v
    return None


def alt_texts(cls: str) -> list:
    """other spellings the parsers accept / reject (correspondence only)"""
    base = cls.split("|")[0]
    return {
        "int": ["5", "+5", "007", " 12 ", "1_000", "-3", "0", "257", "12a", "1.5", "", " ", "0x10", "1__0", "_1", "1e3"],
        "float": ["2", "1.5", "1e3", ".5", "5.", "-0.25", "+3.0e-2", "1_0.5", "abc", "", "1.5.2", "e5", ".", "1e", "--1"],
        "bool": ["true", "false", "True", "FALSE", "yes", "No", "on", "OFF", "1", "0", "maybe", "", "t", " true"],
        "size": ["8x16", "1x1", "+8x16", " 8 x 16 ", "0x5", "8x0", "-1x5", "8x", "x8", "8", "axb", "8x16x2", "8X16", "1_0x2", ""],
        "space": ["32", "32bit", "24", "24bit", "8d", "8bit_diacritic", "8", "8bit", "256", "16", "16d", "16bit", "16bit_diacritic", "x", "33", " 32", ""],
        "subspace": ["0:256", "1:2", "", "5:9", " 5 : 9 ", "+1:+2", "0:1", "5:5", "6:5", "0:257", "-1:5", "5", "1:2:3", "a:b", ":", "1:", "0:2_5_6"],
        "medium": ["d", "direct", "stream", "f", "file", "t", "temp", "tempfile", "s", "shm", "x", "D", "", "shared"],
        "formats": ["png", "png,jpeg", "png, jpeg", "png jpeg", "a,,b", ",a", "a,", " ", ","],
        "str": ["", "auto", "x y", "5"],
        "background": ["5", "005", "-5", "5.0", "", "auto"],
    }.get(base, [])


def wrong_values(cls: str) -> list:
    """(label, value) pairs whose *type* the option does not admit"""
    base = cls.split("|")[0]
    common = {"list": [1], "bytes": {"$": "bytes", "v": "00"}, "dict": {"$": "dict", "v": []}}
    spec = {
        "int": {"bool": True, "float": 1.5, "word": "abc", "float-text": "1.5", "tuple": T(1, 2), "empty-text": ""},
        "float": {"bool": True, "word": "abc", "empty-text": "", "tuple": T(1.0)},
        "bool": {"int": 1, "zero": 0, "float": 1.0, "word": "maybe", "number-text": "2", "empty-text": ""},
        "size": {"list": [8, 16], "one": T(8), "three": T(8, 16, 2), "str-items": T("8", "16"), "bool-item": T(True, 2), "float-item": T(8.0, 16),
                 "int": 8, "number-text": "8", "half-text": "8x", "word": "axb", "float": 1.5},
        "space": {"int": 24, "bool": True, "word": "x", "list": ["32bit"], "float": 24.0},
        "subspace": {"int": 5, "number-text": "5", "word": "a:b", "list": [0, 256], "tuple": T(0, 256)},
        "medium": {"int": 1, "word": "x", "list": ["d"], "bool": True},
        "formats": {"int": 5, "mixed-list": ["png", 1], "bool": True, "tuple": T("png")},
        "str": {"int": 5, "bool": True, "list": ["a"], "float": 1.5},
        "background": {"float": 1.5, "list": [1], "tuple": T(1), "bool": True},
    }.get(base, {})
    out = dict(common)
    if base == "background":
        del out["bytes"]          # bytes is one of the declared alternatives
    out.update(spec)
    return sorted(out.items())


# ------------------------------------------------------------------------------------------------
# running a constructor scenario
# ------------------------------------------------------------------------------------------------
def env_name(opt: str) -> str:
    return "TUPIMAGE_" + opt.upper()


def run_impl(sc: dict) -> dict:
    """sc: {file: [[k, v]..]|None, file_via: 'env'|'arg', env: {opt: str}, kwargs: [[k,v]..], kw_label, overrides: [[k,v]..], ov_label, tmux}"""
    h = host()
    h.setenv(clear_prefix="TUPIMAGE_", unset=["TMUX"])
    envset = {env_name(k): v for k, v in (sc.get("env") or {}).items()}
    if sc.get("tmux"):
        envset["TMUX"] = "/tmp/fake,1,0"
        envset["TERM"] = "tmux-256color"
    else:
        envset["TERM"] = "xterm-256color"
    ctor = {}
    path = None
    if sc.get("file") is not None:
        path = str(h.dir / "config" / "c17.toml")
        text = sc.get("file_text")
        if text is None:
            text = "".join(toml.dumps({k: plain(v)}) for k, v in sc["file"])
        Path(path).write_text(text, encoding="utf-8")
        if sc.get("file_via", "env") == "env":
            envset["TUPIMAGE_CONFIG"] = path
        else:
            ctor["config"] = path
    if envset:
        h.setenv(envset)
    for k, v in sc.get("kwargs") or []:
        ctor[k] = v
    if sc.get("kw_label") is not None:
        ctor["provenance"] = sc["kw_label"]
    if sc.get("overrides") is not None:
        ov = {"$": "dict", "v": [[k, v] for k, v in sc["overrides"]] + ([["provenance", sc["ov_label"]]] if sc.get("ov_label") is not None else [])}
        ctor["config_overrides"] = ov
    ctor["id_database"] = str(h.dir / "state" / "c17.db")
    r = h.request("new", kwargs=_enc_kwargs(ctor, h))
    if "tool_error" in r:
        raise ToolFailure(r["tool_error"])
    if "error" in r:
        return {"error": r["error"], "path": path}
    c = h.request("config", _raw=True)
    if "ok" not in c:
        raise ToolFailure(f"config(): {c}")
    top = _undict(c["ok"])
    return {"config": {"values": _undict(top["values"]), "provenance": _undict(top["provenance"])}, "path": path}


def _enc_kwargs(ctor: dict, h) -> dict:
    # values are already in enc form; only wrap the kwargs dict itself
    return {"$": "dict", "v": [[k, v] for k, v in ctor.items()]}


def _undict(j) -> dict:
    """{"$":"dict","v":[[k, v],..]} -> {k: v} (values stay in transport form)"""
    return {k: v for k, v in j["v"]}


def impl_summary(res: dict, names: list) -> dict:
    """canonical view of an implementation result: per option (token, provenance) or an error class"""
    if "error" in res:
        e = res["error"]
        return {"error": e["type"], "msg": e["msg"]}
    vals = res["config"]["values"]
    prov = res["config"]["provenance"]
    return {"values": {n: tok(vals[n]) for n in names}, "prov": {n: prov[n] for n in names}}


def run_model(ctx: Ctx, sc: dict, path: str | None) -> dict:
    d = ctx.driver("drv_misc")
    h = host()
    state_dir = str(h.dir / "state" / "tupimage")
    file_tok = "_" if sc.get("file") is None else f"{hexs(path)}:{entries_tok(sc['file'])}"
    env_tok = entries_tok([[k, v] for k, v in (sc.get("env") or {}).items()])
    kw = list(sc.get("kwargs") or []) + ([["provenance", sc["kw_label"]]] if sc.get("kw_label") is not None else [])
    ov = list(sc.get("overrides") or []) + ([["provenance", sc["ov_label"]]] if sc.get("ov_label") is not None else [])
    line = f"c17 ctor {hexs(state_dir)} {1 if sc.get('tmux') else 0} {file_tok} {env_tok} {entries_tok(kw)} {entries_tok(ov)}"
    r = d.ask(line)
    if r.startswith("ok "):
        vals, prov = {}, {}
        for item in r[3:].split("|"):
            k, rest = item.split("=", 1)
            v, p = rest.rsplit("@", 1)
            vals[k] = canon_tok(v)
            prov[k] = bytes.fromhex(p).decode("utf-8", "replace")
        return {"values": vals, "prov": prov}
    if r.startswith("err "):
        return {"error": r[4:]}
    raise ToolFailure(f"driver: {r!r} for {line[:300]}")


def names_option(msg: str, opt: str) -> bool:
    return re.search(r"(?<![A-Za-z0-9_])" + re.escape(opt) + r"(?![A-Za-z0-9_])", msg) is not None


def compare_K(ctx: Ctx, case: dict, sc: dict, res: dict, what="constructor") -> dict:
    names = list(res["config"]["values"]) if "config" in res else []
    impl = impl_summary(res, names)
    model = run_model(ctx, sc, res.get("path"))
    if "error" in impl:
        m = impl["msg"]
        if impl["error"] == "KeyError" and "Unknown config keys" in m:
            ic = "keys"
        elif impl["error"] == "KeyError" and "Unknown config key" in m:
            ic = "key"
        elif impl["error"] == "ValueError":
            named = [n for n in OPTS if names_option(m, n)]
            ic = "invalid " + (named[0] if len(named) == 1 else "?" + ",".join(named))
        else:
            ic = "other:" + impl["error"]
        mc = model.get("error", "ok")
        mc = "key" if mc.startswith("key ") else mc
        ctx.eq(what + ": error", case, ic, mc)
    elif "error" in model:
        ctx.mismatch(what + ": model rejects, implementation accepts", case, {n: impl["values"][n] for n in list(impl["values"])[:0]} or "ok", model["error"])
    else:
        for n in names:
            if n not in model["values"]:
                ctx.mismatch(what + ": option missing in the Lean table (regenerate Gen/Options.lean)", case, n, None)
                continue
            if impl["values"][n] != model["values"][n]:
                ctx.mismatch(what + ": value of " + n, case, impl["values"][n], model["values"][n])
            if impl["prov"][n] != model["prov"][n]:
                ctx.mismatch(what + ": provenance of " + n, case, impl["prov"][n], model["prov"][n])
    return impl


OPTS: dict = {}


def single(layer: str, opt: str, v, **extra) -> dict:
    sc = {"file": None, "env": {}, "kwargs": [], "overrides": None}
    sc.update(extra)
    if layer == "file":
        sc["file"] = [[opt, v]]
    elif layer == "env":
        sc["env"] = {opt: v}
    elif layer == "kwargs":
        sc["kwargs"] = [[opt, v]]
    else:
        sc["overrides"] = [[opt, v]]
    return sc


# ------------------------------------------------------------------------------------------------
def check_case(ctx: Ctx, c: dict):
    global OPTS
    if not OPTS:
        OPTS = option_classes()
    try:
        _check_case(ctx, c)
    except PtyHostError as e:
        close_host()
        raise ToolFailure(str(e))


def _check_case(ctx: Ctx, c: dict):
    d = ctx.driver("drv_misc")
    k = c["k"]
    ctx.count("kind:" + k)
    if k == "ctor":
        sc = c["sc"]
        res = run_impl(sc)
        impl = compare_K(ctx, c, sc, res)
        ctx.count("ctor:" + ("error:" + impl["error"] if "error" in impl else "ok"))
        if "error" in impl:
            return
        # F precedence, for the options some layer sets
        setters = {}
        for layer in LAYERS:
            ent = sc.get(layer)
            items = list(ent.items()) if isinstance(ent, dict) else (ent or [])
            for name, v in items:
                if name in OPTS and v is not None:
                    setters.setdefault(name, {})[layer] = v
        for name, by in list(setters.items())[: c.get("judge", 3)]:
            s = [1 if l in by else 0 for l in LAYERS]
            ctx.count("layers-set:" + "".join(map(str, s)))
            w = d.ask(f"c17 winner {s[0]} {s[1]} {s[2]} {s[3]}")
            alone = run_impl(single(w, name, by[w], file_via=sc.get("file_via", "env"), tmux=sc.get("tmux"),
                                    kw_label=sc.get("kw_label") if w == "kwargs" else None,
                                    ov_label=sc.get("ov_label") if w == "overrides" else None))
            if "error" in alone:
                ctx.violation("the winning layer's value is rejected on its own but accepted in combination", c,
                              {"option": name, "winner": w, "error": alone["error"]}, key="precedence:alone-rejected")
                continue
            va = tok(alone["config"]["values"][name])
            if impl["values"][name] != va:
                ctx.violation("effective value is not the one given by the highest-priority layer that sets the option", c,
                              {"option": name, "winner": w, "effective": impl["values"][name], "winner_alone": va, "set_by": sorted(by)},
                              key="precedence:value")
            p = impl["prov"][name]
            okp = d.ask(f"c17 prov {w} {name} {hexs(res['path']) if res.get('path') else '-'} "
                        f"{hexs(sc['kw_label']) if sc.get('kw_label') is not None else '_'} "
                        f"{hexs(sc['ov_label']) if sc.get('ov_label') is not None else '_'} {hexs(p)}")
            expanded = name == "num_tmux_layers" and p.startswith("expanded from 'auto' (")
            if expanded:
                okp = d.ask(f"c17 prov {w} {name} {hexs(res['path']) if res.get('path') else '-'} "
                            f"{hexs(sc['kw_label']) if sc.get('kw_label') is not None else '_'} "
                            f"{hexs(sc['ov_label']) if sc.get('ov_label') is not None else '_'} {hexs(p[len('expanded from auto ()') + 1:-1])}")
            if okp != "1":
                ctx.violation("the reported provenance does not name the layer in force", c,
                              {"option": name, "winner": w, "provenance": p}, key="precedence:provenance")
        # options nobody set keep provenance 'default'
        for name in OPTS:
            if name not in setters and impl["prov"][name] != "default" and not impl["prov"][name].startswith("expanded from 'auto' (default)"):
                ctx.violation("an option no layer sets does not report the default provenance", c,
                              {"option": name, "provenance": impl["prov"][name]}, key="precedence:default-provenance")
    elif k == "text":
        name, v = c["opt"], c["value"]
        cls = OPTS.get(name, "other")
        nl = c.get("native_layer", "kwargs")
        native = run_impl(single(nl, name, v))
        compare_K(ctx, c, single(nl, name, v), native, "native value")
        if c.get("component") is not None:
            ctx.count(f"component:{cls.split('|')[0]}:{c['component']}:native:" + ("rejected" if "error" in native else "accepted"))
        if "error" in native:
            ctx.count("text:native-rejected")
            return
        eff = native["config"]["values"][name]
        text = text_of(eff)
        spec_text = d.ask(f"c17 text {tok(eff)}")
        if not isinstance(eff, float) and spec_text != ("_" if text is None else f"S{hexs(text)};"):
            raise ToolFailure(f"harness text_of and Spec.Config.textOf disagree on {eff!r}: {text!r} vs {spec_text}")
        if text is None:
            ctx.count("text:no-textual-form")
            return
        efft = tok(eff)
        forms = [("env", single("env", name, text)), ("kwargs", single("kwargs", name, text)),
                 ("overrides", single("overrides", name, text))]
        if "\\" not in text:
            forms.append(("file-string", single("file", name, text)))
        base = cls.split("|")[0]
        if base in ("int", "float", "bool") and re.fullmatch(r"[+-]?\d+|[+-]?\d+\.\d+(e[+-]?\d+)?|[+-]?\d+e[+-]?\d+|true|false", text):
            forms.append(("file-literal", dict(single("file", name, None), file=[[name, toml.loads(f"x = {text}")["x"]]],
                                               file_text=f"{name} = {text}\n")))
        for lname, sc in forms:
            r = run_impl(sc)
            compare_K(ctx, dict(c, layer=lname), sc, r, "textual form")
            ctx.count(f"text:{cls}:{lname}")
            if "error" in r:
                ctx.violation(f"a value accepted for the option is rejected in its textual form from the {lname} layer",
                              dict(c, layer=lname), {"text": text, "class": cls, "error": r["error"]["msg"][:200]},
                              key=f"same-text:{cls}:{lname.split('-')[0]}")
            elif tok(r["config"]["values"][name]) != efft:
                ctx.violation(f"the textual form means a different value in the {lname} layer", dict(c, layer=lname),
                              {"text": text, "class": cls, "native": efft, "from_text": tok(r["config"]["values"][name])},
                              key=f"same-text-value:{cls}:{lname.split('-')[0]}")
    elif k == "alt":
        name, text, layer = c["opt"], c["text"], c["layer"]
        sc = single(layer, name, text)
        r = run_impl(sc)
        compare_K(ctx, c, sc, r, "string form")
        if c.get("component") is not None:
            ctx.count(f"component:{OPTS.get(name, 'other').split('|')[0]}:{c['component']}:text:" + ("rejected" if "error" in r else "accepted"))
    elif k == "envtext":
        # a text the environment layer accepts must mean the same in every other layer, incl. as a bare TOML literal
        name, text = c["opt"], c["text"]
        cls = OPTS.get(name, "other")
        base = cls.split("|")[0]
        r0 = run_impl(single("env", name, text))
        if "error" in r0:
            ctx.count("envtext:rejected-by-env")
            return
        v0 = tok(r0["config"]["values"][name])
        forms = [("kwargs", single("kwargs", name, text)), ("overrides", single("overrides", name, text))]
        if "\\" not in text:
            forms.append(("file-string", single("file", name, text)))
        if base in ("int", "float", "bool"):
            try:
                lit = toml.loads(f"x = {text}")["x"]
            except Exception:
                lit = None
            if isinstance(lit, (bool, int, float)):
                forms.append(("file-literal", dict(single("file", name, None), file=[[name, lit]], file_text=f"{name} = {text}\n")))
        for lname, sc in forms:
            r = run_impl(sc)
            compare_K(ctx, dict(c, layer=lname), sc, r, "env text elsewhere")
            ctx.count(f"envtext:{base}:{lname}")
            if "error" in r:
                ctx.violation(f"a text the environment layer accepts is rejected from the {lname} layer", dict(c, layer=lname),
                              {"text": text, "class": cls, "error": r["error"]["msg"][:200]}, key=f"env-text:{base}:{lname}")
            elif tok(r["config"]["values"][name]) != v0:
                ctx.violation(f"a text the environment layer accepts means a different value in the {lname} layer", dict(c, layer=lname),
                              {"text": text, "class": cls, "env": v0, "here": tok(r["config"]["values"][name])}, key=f"env-text-value:{base}:{lname}")
    elif k == "wrong":
        name, v, layer, label = c["opt"], c["value"], c["layer"], c["label"]
        cls = OPTS.get(name, "other")
        sc = single(layer, name, v)
        r = run_impl(sc)
        compare_K(ctx, c, sc, r, "wrong-type value")
        ctx.count(f"wrong:{cls.split('|')[0]}:{label}:{'rejected' if 'error' in r else 'ACCEPTED'}")
        if c.get("component") is not None:
            ctx.count(f"component:{cls.split('|')[0]}:{c['component']}:native:" + ("rejected" if "error" in r else "ACCEPTED"))
        if "error" not in r:
            ctx.violation("a value of a type the option does not admit is accepted", c,
                          {"class": cls, "value_class": label, "effective": tok(r["config"]["values"][name])},
                          key=f"wrong-type-accepted:{cls.split('|')[0]}:{label}")
        elif not names_option(r["error"]["msg"], name):
            ctx.violation("the error for a wrong-type value does not name the option", c,
                          {"class": cls, "value_class": label, "error": r["error"]["type"] + ": " + r["error"]["msg"][:200]},
                          key=f"error-does-not-name-option:{cls.split('|')[0]}")
    elif k == "toml":
        sc = c["sc"]
        res = run_impl(sc)
        impl = compare_K(ctx, c, sc, res, "constructor (toml case)")
        if c.get("component") is not None:
            ctx.count("component:size:" + c["component"].split(":")[-1] + ":toml-roundtrip:" + ("not-accepted" if "error" in impl else "accepted"))
        if "error" in impl:
            ctx.count("toml:ctor-error")
            return
        h = host()
        before = {n: tok(res["config"]["values"][n]) for n in res["config"]["values"]}
        for mode in c.get("modes", ["plain", "provenance", "skip_default"]):
            kw = {"plain": {}, "provenance": {"with_provenance": True}, "skip_default": {"skip_default": True},
                  "cli": {}}[mode]
            if mode == "cli":
                dump = h.run("import subprocess, sys, os\n"
                             "r = subprocess.run([sys.executable, '-m', 'tupimage.cli', 'dump-config', '--no-provenance'], capture_output=True,"
                             " env=dict(os.environ, PYTHONPATH=repo), text=True)\nresult = [r.returncode, r.stdout, r.stderr[-500:]]\n", repo=str(REPO))
                if "ok" not in dump or dump["ok"][0] != 0:
                    raise ToolFailure(f"tupimage.cli dump-config failed: {dump}")
                # the CLI builds its own terminal from file+env only: compare with the same scenario without call-time layers
                if sc.get("kwargs") or sc.get("overrides"):
                    continue
                dump = {"ok": dump["ok"][1]}
            else:
                dump = h.call("_config.to_toml_string", **kw)
            if "ok" not in dump:
                ctx.violation("the configuration cannot be dumped as TOML", dict(c, mode=mode), dump.get("error"), key="toml-roundtrip:dump-raises")
                continue
            text = dump["ok"]
            # K: the dump on the typed channel
            if mode == "plain":
                try:
                    parsed = toml.loads(text)
                except Exception as e:   # third-party parser on the library's output
                    parsed = None
                    ctx.violation("the dumped configuration is not valid TOML", c, {"error": str(e), "dump": text[:400]}, key="toml-roundtrip:invalid-toml")
                if parsed is not None:
                    md = d.ask("c17 dump " + entries_tok([[n, res["config"]["values"][n]] for n in res["config"]["values"]]))
                    want = entries_tok([[n, parsed[n]] for n in parsed])
                    ctx.eq("to_toml_string (typed channel)", c, want, "|".join(f"{kv.split('=')[0]}={canon_tok(kv.split('=', 1)[1])}" for kv in md.split("|")))
            # load into a fresh configuration object
            r = h.run(_raw=True, source="cfg = tupimage.TupimageConfig()\ncfg.override_from_toml_string(text)\n"
                      "result = {n: getattr(cfg, n) for n in type(cfg).__annotations__}\n", text=text)
            ctx.count("toml:" + mode)
            if "ok" not in r:
                ctx.violation("the dumped configuration cannot be loaded back", dict(c, mode=mode),
                              {"error": r.get("error"), "dump": text[:600]}, key="toml-roundtrip:load-raises")
                continue
            after = {n: tok(v) for n, v in _undict(r["ok"]).items()}
            if mode == "skip_default":
                # options left out are the ones reporting 'default': they must equal a fresh default
                pass
            diff = {n: [before[n], after.get(n)] for n in before if before[n] != after.get(n)}
            if diff:
                ctx.violation("dump -> load does not reproduce every option", dict(c, mode=mode), {"differs": diff, "dump": text[:600]},
                              key="toml-roundtrip:" + ",".join(sorted(OPTS.get(n, "other").split("|")[0] for n in diff)))
            # and through the file layer of a new terminal
            if mode == "plain":
                sc2 = {"file": [], "file_text": text, "env": {}, "kwargs": [], "overrides": None, "tmux": sc.get("tmux")}
                r2 = run_impl(sc2)
                if "error" in r2:
                    ctx.violation("the dumped configuration is rejected as a config file", c, {"error": r2["error"], "dump": text[:600]},
                                  key="toml-roundtrip:file-rejected")
                    # the failed constructor left the child without a terminal: give the remaining dump modes the original one back
                    if "error" in run_impl(sc):
                        break
                else:
                    after2 = {n: tok(v) for n, v in r2["config"]["values"].items()}
                    diff = {n: [before[n], after2.get(n)] for n in before if before[n] != after2.get(n)}
                    if diff:
                        ctx.violation("dump -> config file -> constructor does not reproduce every option", c, {"differs": diff},
                                      key="toml-roundtrip-file:" + ",".join(sorted(OPTS.get(n, "other").split("|")[0] for n in diff)))
    elif k == "shared":
        check_shared(ctx, c)
    else:
        raise ValueError(k)


# ------------------------------------------------------------------------------------------------
# several configuration objects / terminals alive in one process
# ------------------------------------------------------------------------------------------------
_SHARED_CHILD = r"""
import os
cfgs, terms, order = {}, {}, []
def target(name):
    return cfgs[name] if name in cfgs else terms[name]._config
def snap():
    out = []
    for name in order:
        cfg = target(name)
        names = list(type(cfg).__annotations__)
        out.append([name, id(cfg), {n: getattr(cfg, n) for n in names}, {n: cfg.get_provenance(n) for n in names}])
    return out
def set_env(env, tmux):
    for k in [k for k in os.environ if k.startswith("TUPIMAGE_")]:
        del os.environ[k]
    os.environ.pop("TMUX", None)
    os.environ["TERM"] = "tmux-256color" if tmux else "xterm-256color"
    if tmux:
        os.environ["TMUX"] = "/tmp/fake,1,0"
    for k, v in env.items():
        os.environ["TUPIMAGE_" + k.upper()] = v
fresh = tupimage.TupimageConfig()
result = [{"defaults": {n: getattr(fresh, n) for n in type(fresh).__annotations__}}]
try:
    for st in steps:
        try:
            op = st["op"]
            if op == "cfg":
                cfgs[st["c"]] = tupimage.TupimageConfig()
                order.append(st["c"])
            elif op == "toml":
                if st["how"] == "file":
                    target(st["on"]).override_from_toml_file(st["path"])
                else:
                    target(st["on"]).override_from_toml_string(st["text"], provenance="set from file " + st["path"])
            elif op == "dict":
                d = dict(st["items"])
                if st["how"] == "prop":
                    for k, v in d.items():
                        setattr(terms[st["on"]], k, v)
                elif st["how"] == "override":
                    target(st["on"]).override(provenance=st.get("label"), **d)
                else:
                    if st.get("label") is not None:
                        d["provenance"] = st["label"]
                    target(st["on"]).override_from_dict(d)
            elif op == "envload":
                set_env(st["env"], False)
                target(st["on"]).override_from_env()
            elif op == "new":
                set_env(st["env"], st.get("tmux"))
                kw = dict(st["kwargs"])
                if st.get("kw_label") is not None:
                    kw["provenance"] = st["kw_label"]
                if st.get("overrides") is not None:
                    ov = dict(st["overrides"])
                    if st.get("ov_label") is not None:
                        ov["provenance"] = st["ov_label"]
                    kw["config_overrides"] = ov
                conf = st["config"]
                terms[st["t"]] = tupimage.TupimageTerminal(config=cfgs[conf["c"]] if "c" in conf else conf["path"],
                                                           id_database=st["db"], **kw)
                order.append(st["t"])
            else:
                raise RuntimeError("unknown op " + op)
        except Exception as e:
            import traceback
            result.append({"error": {"type": type(e).__name__, "msg": str(e), "tb": traceback.format_exc()[-600:]}})
            break
        result.append({"snap": snap()})
finally:
    for t in terms.values():
        H.T = t
        H.close_terminal()
"""


def _enc_plain(x):
    """a structure of plain dicts / lists whose leaves are already in enc form -> enc form"""
    if isinstance(x, dict):
        if "$" in x:
            return x
        return {"$": "dict", "v": [[k, _enc_plain(v)] for k, v in x.items()]}
    if isinstance(x, list):
        return [_enc_plain(v) for v in x]
    return x


def _pairs(items):
    """[[opt, value]…] of a layer -> enc list of 2-tuples (dict(...) in the child)"""
    return [{"$": "tuple", "v": [k, v]} for k, v in items]


def run_shared(c: dict):
    """the steps of a shared-object case on the real code, in ONE child -> (results, per-step run-time facts)"""
    h = host()
    steps, facts = [], []
    for i, st in enumerate(c["steps"]):
        op = st["op"]
        e = {"op": op}
        fact = {}
        if op == "cfg":
            e["c"] = st["c"]
        elif op == "toml":
            text = "".join(toml.dumps({k: plain(v)}) for k, v in st["items"])
            e.update(on=st["on"], how=st["how"], text=text)
            if st["how"] == "file":
                path = str(h.dir / "config" / f"shared_pre{i}.toml")
                Path(path).write_text(text, encoding="utf-8")
            else:
                path = st["path"]
            e["path"] = fact["path"] = path
        elif op == "dict":
            e.update(on=st["on"], how=st["how"], items=_pairs(st["items"]), label=st.get("label"))
        elif op == "envload":
            e.update(on=st["on"], env=_enc_plain(dict(st["env"])))
        elif op == "new":
            conf = st["config"]
            if isinstance(conf, dict) and "file" in conf:
                path = str(h.dir / "config" / f"shared_{st['t']}.toml")
                Path(path).write_text("".join(toml.dumps({k: plain(v)}) for k, v in conf["file"]), encoding="utf-8")
                fact["path"] = path
                econf = {"path": path}
            elif conf == "DEFAULT":
                econf = {"path": "DEFAULT"}
            else:
                econf = {"c": conf}
            e.update(t=st["t"], config=_enc_plain(econf), env=_enc_plain(dict(st.get("env") or {})), tmux=bool(st.get("tmux")),
                     kwargs=_pairs(st.get("kwargs") or []), kw_label=st.get("kw_label"),
                     overrides=None if st.get("overrides") is None else _pairs(st["overrides"]), ov_label=st.get("ov_label"),
                     db=str(h.dir / "state" / f"shared_{st['t']}.db"))
        else:
            raise ToolFailure(f"malformed shared case: op {op!r}")
        steps.append(_enc_plain(e))
        facts.append(fact)
    r = h.request("run", _raw=True, source=_SHARED_CHILD, vars={"$": "dict", "v": [["steps", steps]]})
    if "ok" not in r:
        raise ToolFailure(f"shared-object scenario: {r}")
    return r["ok"], facts


def _shared_model(ctx: Ctx, c: dict, facts) -> dict:
    """K side: {label: {global step index: (values, provenance)}} from `c17 chain`, one request per underlying object (the
    model follows the code: a terminal's configuration IS the object it was given)"""
    state_dir = str(host().dir / "state" / "tupimage")
    objs, label_obj = {}, {}          # object key -> [(global step, chain token)], label -> object key
    for i, st in enumerate(c["steps"]):
        op = st["op"]
        if op == "cfg":
            label_obj[st["c"]] = st["c"]
            objs[st["c"]] = [(i, None)]
            continue
        if op == "new":
            conf = st["config"]
            key = label_obj[conf] if isinstance(conf, str) and conf != "DEFAULT" else st["t"]
            label_obj[st["t"]] = key
            chain = objs.setdefault(key, [])
            if isinstance(conf, dict):
                chain.append((i, f"F:{hexs(facts[i]['path'])}:{entries_tok(conf['file'])}"))
            kw = list(st.get("kwargs") or []) + ([["provenance", st["kw_label"]]] if st.get("kw_label") is not None else [])
            ov = list(st.get("overrides") or []) + ([["provenance", st["ov_label"]]] if st.get("ov_label") is not None else [])
            chain.append((i, f"C:{1 if st.get('tmux') else 0}:{entries_tok([[k, v] for k, v in (st.get('env') or {}).items()])}:"
                             f"{entries_tok(kw)}:{entries_tok(ov)}"))
            continue
        key = label_obj[st["on"]]
        if op == "toml":
            objs[key].append((i, f"F:{hexs(facts[i]['path'])}:{entries_tok(st['items'])}"))
        elif op == "dict":
            items = list(st["items"]) + ([["provenance", st["label"]]] if st.get("label") is not None else [])
            objs[key].append((i, f"D:{entries_tok(items)}"))
        elif op == "envload":
            objs[key].append((i, f"E:{entries_tok([[k, v] for k, v in st['env'].items()])}"))
    d = ctx.driver("drv_misc")
    per_obj = {}
    for key, chain in objs.items():
        toks = [t for _, t in chain if t is not None]
        r = d.ask(f"c17 chain {hexs(state_dir)} " + " ".join(toks)) if toks else "ok "
        if not r.startswith("ok"):
            raise ToolFailure(f"driver: {r!r} for chain {toks}")
        states = [x for x in r[3:].split("#") if x] if toks else []
        out, k = {}, 0
        for i, t in chain:
            if t is None:
                out[i] = "fresh"
                continue
            if k < len(states):
                out[i] = states[k]
            k += 1
        per_obj[key] = out
    return {"label_obj": label_obj, "per_obj": per_obj}


def _parse_state(s: str):
    if s.startswith("err "):
        return {"error": s[4:]}
    vals, prov = {}, {}
    for item in s.split("|"):
        k, rest = item.split("=", 1)
        v, p = rest.rsplit("@", 1)
        vals[k] = canon_tok(v)
        prov[k] = bytes.fromhex(p).decode("utf-8", "replace")
    return {"values": vals, "prov": prov}


def check_shared(ctx: Ctx, c: dict):
    d = ctx.driver("drv_misc")
    results, facts = run_shared(c)
    defaults = {n: tok(v) for n, v in _undict(_undict(results[0])["defaults"]).items()}
    model = _shared_model(ctx, c, facts)
    prev: dict = {}                      # label -> {opt: (value token, provenance)}
    k_reported = False

    def prov_ok(layer, name, path, kwl, ovl, p):
        return d.ask(f"c17 prov {layer} {name} {hexs(path) if path else '-'} {hexs(kwl) if kwl is not None else '_'} "
                     f"{hexs(ovl) if ovl is not None else '_'} {hexs(p)}") == "1"

    for i, st in enumerate(c["steps"]):
        op = st["op"]
        how = st.get("how", "")
        if op == "new":
            conf = st["config"]
            how = "file" if isinstance(conf, dict) else "DEFAULT" if conf == "DEFAULT" else "object" + ("-again" if any(
                x["op"] == "new" and x["config"] == conf for x in c["steps"][:i]) else "")
        ctx.count("shared-step:" + op + (":" + how if how else ""))
        r = _undict(results[i + 1])
        whole = dict(c, steps=c["steps"][:i + 1])
        if "error" in r:
            e = _undict(r["error"])
            # every generated value is valid: a refusal is at least a broken correspondence (the model refuses nothing here)
            ctx.mismatch("shared objects: the step raised", whole, {"step": i, "error": e["type"] + ": " + e["msg"][:300]}, "ok")
            return
        cur = {}
        for label, _oid, vals, prov in r["snap"]:
            vals, prov = _undict(vals), _undict(prov)
            cur[label] = {n: (tok(vals[n]), prov[n]) for n in vals}
        # ---- K: every object alive against the model's object it refers to
        if not k_reported:
            for label, state in cur.items():
                key = model["label_obj"][label]
                upto = [j for j in model["per_obj"][key] if j <= i]
                ms = model["per_obj"][key][max(upto)]
                if ms == "fresh":
                    m = {"values": defaults, "prov": {n: "default" for n in defaults}}
                else:
                    m = _parse_state(ms)
                if "error" in m:
                    ctx.mismatch("shared objects: model refuses, implementation accepts", whole, "ok", m["error"])
                    k_reported = True
                    break
                bad = {n: {"impl": list(state[n]), "model": [m["values"].get(n), m["prov"].get(n)]} for n in state
                       if state[n] != (m["values"].get(n), m["prov"].get(n))}
                if bad:
                    ctx.mismatch("shared objects: value / provenance of an inspected object", whole,
                                 {"step": i, "object": label, "differs": dict(list(bad.items())[:4])}, "see differs")
                    k_reported = True
                    break
        # ---- F: the object acted on
        tgt = st["c"] if op == "cfg" else st["t"] if op == "new" else st["on"]
        layers = {l: {} for l in LAYERS}
        path, kwl, ovl, tmux, expand = None, None, None, False, False
        if op == "cfg":
            base = {n: (defaults[n], "default") for n in defaults}
        elif op == "new":
            conf = st["config"]
            if isinstance(conf, str) and conf != "DEFAULT":
                base = prev[conf]
            else:
                base = {n: (defaults[n], "default") for n in defaults}
                if isinstance(conf, dict):
                    layers["file"] = {k: tok(st["means"]["file"][k]) for k, _ in conf["file"]}
                    path = facts[i]["path"]
            layers["env"] = {k: tok(st["means"]["env"][k]) for k in (st.get("env") or {})}
            layers["kwargs"] = {k: tok(st["means"]["kwargs"][k]) for k, _ in (st.get("kwargs") or [])}
            layers["overrides"] = {k: tok(st["means"]["overrides"][k]) for k, _ in (st.get("overrides") or [])}
            kwl, ovl, tmux, expand = st.get("kw_label"), st.get("ov_label"), bool(st.get("tmux")), True
        else:
            base = prev[tgt]
            if op == "toml":
                layers["file"] = {k: tok(st["means"][k]) for k, _ in st["items"]}
                path = facts[i]["path"]
            elif op == "dict":
                layers["kwargs"] = {k: tok(st["means"][k]) for k, _ in st["items"]}
                kwl = st.get("label")
            else:
                layers["env"] = {k: tok(st["means"][k]) for k in st["env"]}
        after = cur[tgt]
        for n in OPTS:
            if n not in after:
                continue
            bits = [1 if n in layers[l] else 0 for l in LAYERS]
            val, p = after[n]
            if any(bits):
                ctx.count("shared-layers-set:" + "".join(map(str, bits)))
                w = d.ask(f"c17 winner {bits[0]} {bits[1]} {bits[2]} {bits[3]}")
                want = layers[w][n]
                inner = p
                if expand and n == "num_tmux_layers" and want == tok("auto"):
                    want = tok(1 if tmux else 0)
                    ctx.count("shared-auto-expanded")
                    if p.startswith("expanded from 'auto' (") and p.endswith(")"):
                        inner = p[len("expanded from 'auto' ("):-1]
                if val != want:
                    ctx.violation("several objects in one process: the effective value is not the one given by the highest-priority layer "
                                  "that sets the option for THIS object", whole,
                                  {"step": i, "object": tgt, "option": n, "winner": w, "effective": val, "expected": want}, key="shared:value")
                elif not prov_ok(w, n, path, kwl, ovl, inner):
                    ctx.violation("several objects in one process: the reported provenance does not name the layer in force for THIS object",
                                  whole, {"step": i, "object": tgt, "option": n, "winner": w, "provenance": p}, key="shared:provenance")
            else:
                want_v, want_p = base[n]
                if expand and n == "num_tmux_layers" and want_v == tok("auto"):
                    want_v, want_p = tok(1 if tmux else 0), f"expanded from 'auto' ({want_p})"
                if (val, p) != (want_v, want_p):
                    ctx.violation("several objects in one process: an option that no layer of this step sets does not keep the value and "
                                  "provenance of the configuration the step started from", whole,
                                  {"step": i, "object": tgt, "option": n, "now": [val, p], "started_from": [want_v, want_p]},
                                  key="shared:untouched-option")
        # ---- F: every other object alive
        for label, state in cur.items():
            if label == tgt or label not in prev:
                continue
            for n, pair in state.items():
                if pair != prev[label][n] and pair != after.get(n):
                    ctx.violation("several objects in one process: after a step on ANOTHER object, an option's value / provenance is neither "
                                  "what this object had before nor what the object acted on has (a layer this object never received is "
                                  "reported, or a value it received is not)", whole,
                                  {"step": i, "acted_on": tgt, "object": label, "option": n, "before": list(prev[label][n]), "now": list(pair),
                                   "acted_on_now": list(after.get(n, ()))}, key="shared:other-object")
                    break
        prev = cur


# ------------------------------------------------------------------------------------------------
# structured values, one COMPONENT at a time
# ------------------------------------------------------------------------------------------------
# value classes of one component of a structured value (label, value, is the TYPE wrong for an int component?)
INT_COMPONENT_CLASSES = [("zero", 0, False), ("minus-one", -1, False), ("negative", -7, False), ("one", 1, False), ("large", 2 ** 31, False),
                         ("true", True, True), ("false", False, True), ("float", 8.0, True), ("float-fraction", 0.5, True), ("none", None, True),
                         ("digit-text", "8", True)]


def _py_text(v) -> str:
    """how the component reads inside a textual form when somebody formats it the obvious way"""
    return str(v)


def component_cases(names, quick: bool):
    """For the options whose values have components (sizes `WxH`, subspaces `B:E`, format lists): every component is driven
    through every value class on its own - the other component(s) stay good - natively (kwargs, config_overrides) and in the
    textual form (env, kwargs, config_overrides, config file).  Judged by the statement only: a natively ACCEPTED value must be
    accepted with the same meaning in its textual form from every layer (`text`), must survive dump -> load (`toml`); a component
    of the wrong TYPE (bool, float, None, text, wrong arity) must be rejected naming the option (`wrong`); what a text means is
    compared with the model in every layer (`alt`) and between the layers (`envtext`)."""
    text_layers = ["env", "kwargs", "overrides", "file"]
    for name in names:
        base = OPTS[name].split("|")[0]
        if base == "size":
            good = (8, 16)
            for i in (0, 1):
                for label, bad, wrong_type in INT_COMPONENT_CLASSES:
                    comp = f"{'WH'[i]}={label}"
                    items = list(good)
                    items[i] = bad
                    v = T(*items)
                    if wrong_type:
                        for layer in ("kwargs", "overrides"):
                            yield {"k": "wrong", "opt": name, "value": v, "layer": layer, "label": "component-" + label, "component": comp}
                    else:
                        for layer in ("kwargs", "overrides"):
                            yield {"k": "text", "opt": name, "value": v, "native_layer": layer, "component": comp}
                        yield {"k": "toml", "sc": {"file": None, "env": {}, "kwargs": [[name, v]], "overrides": None}, "modes": ["plain"],
                               "component": f"{name}:{comp}"}
                    text = "x".join(_py_text(x) for x in items)
                    for layer in text_layers:
                        yield {"k": "alt", "opt": name, "text": text, "layer": layer, "component": comp}
                    yield {"k": "envtext", "opt": name, "text": text}
            # both components bad at once, and the wrong number of components
            for v in (T(0, 0), T(-1, -1), T(0, -3)):
                for layer in ("kwargs", "overrides"):
                    yield {"k": "text", "opt": name, "value": v, "native_layer": layer, "component": "both-bad"}
            for label, v in (("arity-0", T()), ("arity-1", T(8)), ("arity-3", T(8, 16, 2)), ("arity-3-bad-last", T(8, 16, 0)), ("nested", T(8, T(16)))):
                for layer in ("kwargs", "overrides"):
                    yield {"k": "wrong", "opt": name, "value": v, "layer": layer, "label": "component-" + label, "component": label}
            for text in ("8", "8x16x2", "8x16x0", "x", "8xx16"):
                for layer in text_layers:
                    yield {"k": "alt", "opt": name, "text": text, "layer": layer, "component": "arity-text"}
        elif base == "subspace":
            for i, goodv in ((0, ("{}", "9")), (1, ("5", "{}"))):
                for label, bad in (("zero", 0), ("minus-one", -1), ("last", 255), ("end", 256), ("beyond", 257), ("true", True), ("float", 1.0),
                                   ("none", None), ("word", "a"), ("empty", ""), ("equal-other", 9 if i == 0 else 5), ("past-other", 10 if i == 0 else 4)):
                    text = ":".join(goodv).format(_py_text(bad))
                    for layer in (text_layers[:2] if quick else text_layers):
                        yield {"k": "alt", "opt": name, "text": text, "layer": layer, "component": f"{'BE'[i]}={label}"}
                    yield {"k": "envtext", "opt": name, "text": text}
        elif base == "formats":
            for i in (0, 1, 2):
                for label, bad in (("int", 1), ("none", None), ("true", True), ("float", 1.5), ("list", ["png"]), ("tuple", T("png"))):
                    items = ["png", "jpeg"]
                    items.insert(i, bad)
                    for layer in ("kwargs", "overrides"):
                        yield {"k": "wrong", "opt": name, "value": items, "layer": layer, "label": "component-" + label, "component": f"item{i}={label}"}
            for text in ("png,1", "1,png", "png,,jpeg", "png, ,jpeg", ",png", "png,"):
                for layer in text_layers:
                    yield {"k": "alt", "opt": name, "text": text, "layer": layer, "component": "item-text"}
                yield {"k": "envtext", "opt": name, "text": text}


def precise_floats(rng) -> list:
    """Finite doubles whose shortest decimal form needs up to 17 significant digits, at every magnitude: a dump that keeps fewer
    digits (a fixed number of decimals, `%g`, `%f`, a short `round`) cannot give them back.  Compared bit-exactly after dump -> load
    (`tok` carries a float as its exact rational value, i.e. float.hex precision)."""
    import math
    inf = math.inf
    vals = [1 / 3, 2 / 3, 1 / 7, 0.1 + 0.2, 0.1 * 3, 1.1 * 1.1, math.pi, math.e, math.sqrt(2), 1 - 1e-16, 1 + 2 ** -52,
            # tiny: nothing left after a few decimals; subnormal and smallest normal
            2.5e-7, 1e-7 / 3, 1.2345678901234567e-5, 4.9e-10, 1e-300 / 3, 2.2250738585072014e-308, 5e-324, 3e-320,
            # huge: beyond integer precision, largest finite
            1e22 / 3, 123456789.12345679, 1e15 + 0.3, 2.0 ** 53 + 2, 1e100 / 7, 1.7976931348623157e308,
            # exponent-form boundaries of repr (1e16 / 1e-5) and their neighbours
            1e16, 9999999999999998.0, 1e-5, 9.999999999999999e-6, 0.0001]
    # the two neighbours of round decimals (one ulp away: 17 digits needed, and any rounding collapses them onto the decimal)
    for dec_ in (0.1, 0.25, 0.5, 1.0, 1.5, 2.0, 3.0, 10.0, 0.001, 100.0, 1e-6, 65536.0, 1e9):
        vals += [math.nextafter(dec_, inf), math.nextafter(dec_, -inf)]
    vals += [-v for v in (1 / 3, 0.1 + 0.2, 2.5e-7, math.nextafter(1.0, inf), 1e22 / 3, 0.5)]
    # random: uniform in everyday ranges, random magnitude, random mantissa bits
    for _ in range(12):
        vals.append(rng.uniform(0.05, 8))
        vals.append(rng.random() * 10.0 ** rng.randint(-12, 12))
        vals.append(math.ldexp(rng.getrandbits(53) | (1 << 52), rng.randint(-80, 20) - 52))
    return vals


def float_roundtrip_cases(names, rng, quick: bool):
    """Every float option carries every value of `precise_floats` at least once (rotating assignment, all float options set in
    one configuration), given natively through kwargs / config_overrides / the file layer as a bare literal or through the
    environment as repr() text; the configuration must survive dump -> load in every dump mode."""
    fopts = [n for n in names if OPTS[n].split("|")[0] == "float"]
    if not fopts:
        return
    vals = precise_floats(rng)
    reps = 1 if quick else 3
    for rep in range(reps):
        for i in range(len(vals)):
            layer = ["kwargs", "overrides", "file", "env"][(i + rep) % 4]
            items = [[n, vals[(i + j * 7 * (rep + 1)) % len(vals)] if j else vals[i]] for j, n in enumerate(fopts)]
            sc = {"file": None, "env": {}, "kwargs": [], "overrides": None}
            if layer == "env":
                sc["env"] = {n: repr(v) for n, v in items}
            elif layer == "file":
                sc["file"] = items
                sc["file_via"] = "arg" if i % 2 else "env"
            else:
                sc[layer] = items
            yield {"k": "toml", "sc": sc, "modes": ["plain", "provenance", "skip_default"] if (i + rep) % 3 == 0 else ["plain"],
                   "float_family": True}



def shared_cases(names, rng, quick: bool):
    """Scenarios with several objects alive in one process.  A small pool of options per scenario (so that siblings set the
    same options, or one sets what the other leaves alone); every value valid and given in a form its layer takes
    (`means` = the native value it stands for).  Skeleton: 1..2 TupimageConfig objects, 0..2 pre-set steps on them, then
    2..4 constructors — mostly on the SAME object, some on the other object, on "DEFAULT" or on a file — each with its own
    environment / keyword / config_overrides layers (often none at all: a bare second constructor), with property
    assignments, further override_from_* calls on the caller's object in between."""
    from tupimage.tupimage_terminal import TupimageTerminal
    usable = [n for n in names if valid_values(n, OPTS[n])]
    props = [n for n in usable if isinstance(getattr(TupimageTerminal, n, None), property)]

    def layer_items(pool, layer, kmax=3):
        """-> ([[opt, given]…], {opt: means}) for 1..kmax options of the pool"""
        items, means = [], {}
        for n in rng.sample(pool, min(len(pool), rng.randint(1, kmax))):
            v = rng.choice(valid_values(n, OPTS[n]))
            lv = as_layer_value(layer, v, rng)
            if lv is None:
                continue
            items.append([n, lv])
            means[n] = v
        return items, means

    for _ in range(110 if quick else 1100):
        pool = rng.sample(usable, rng.randint(3, 6))
        if rng.random() < 0.5:
            pool = list(dict.fromkeys(pool + rng.sample(props, 2)))
        if rng.random() < 0.3 and "num_tmux_layers" in usable and "num_tmux_layers" not in pool:
            pool.append("num_tmux_layers")
        steps = [{"op": "cfg", "c": "c0"}]
        cfgs = ["c0"]
        if rng.random() < 0.25:
            steps.append({"op": "cfg", "c": "c1"})
            cfgs.append("c1")

        def pre_step(on):
            r = rng.random()
            if r < 0.4:
                items, means = layer_items(pool, "file")
                if items:
                    steps.append({"op": "toml", "on": on, "how": rng.choice(["string", "string", "file"]), "path": rng.choice(["base.toml", "/etc/tupimage/site.toml"]),
                                  "items": items, "means": means})
            elif r < 0.8:
                items, means = layer_items(pool, "kwargs")
                if items:
                    steps.append({"op": "dict", "on": on, "how": rng.choice(["dict", "override"]), "label": rng.choice([None, None, "set by the application"]),
                                  "items": items, "means": means})
            else:
                items, means = layer_items(pool, "env", 2)
                if items:
                    steps.append({"op": "envload", "on": on, "env": dict(items), "means": means})

        for on in cfgs:
            for _k in range(rng.choice([0, 0, 1, 1, 2])):
                pre_step(on)
        terms = []
        for j in range(rng.choice([2, 2, 3, 3, 4])):
            r = rng.random()
            if r < 0.68 or j == 0:
                conf = "c0"
            elif r < 0.78 and len(cfgs) > 1:
                conf = "c1"
            elif r < 0.9:
                conf = "DEFAULT"
            else:
                items, means_f = layer_items(pool, "file")
                conf = {"file": items}
            st = {"op": "new", "t": f"t{j}", "config": conf, "env": {}, "kwargs": [], "overrides": None, "tmux": rng.random() < 0.15,
                  "kw_label": None, "ov_label": None, "means": {"env": {}, "kwargs": {}, "overrides": {}}}
            if isinstance(conf, dict):
                st["means"]["file"] = means_f
            bare = rng.random() < 0.15            # no layer at all: the configuration as given
            if not bare:
                if rng.random() < 0.45:
                    items, means = layer_items(pool, "env", 2)
                    st["env"], st["means"]["env"] = dict(items), means
                if rng.random() < 0.65:
                    st["kwargs"], st["means"]["kwargs"] = layer_items(pool, "kwargs")
                    st["kw_label"] = rng.choice([None, None, "set by the caller"])
                if rng.random() < 0.4:
                    st["overrides"], st["means"]["overrides"] = layer_items(pool, "overrides", 2)
                    st["ov_label"] = rng.choice([None, "set via command line"])
            steps.append(st)
            terms.append(st["t"])
            # between constructors: the caller goes on using its objects
            r = rng.random()
            if r < 0.2:
                t = rng.choice(terms)
                ps = [n for n in pool if n in props]
                if ps:
                    n = rng.choice(ps)
                    v = rng.choice([x for x in valid_values(n, OPTS[n]) if x != "auto"] or valid_values(n, OPTS[n]))
                    steps.append({"op": "dict", "on": t, "how": "prop", "label": None, "items": [[n, v]], "means": {n: v}})
            elif r < 0.35:
                pre_step(rng.choice(cfgs))
        yield {"k": "shared", "steps": steps}


def subsets():
    for m in range(1, 16):
        yield [LAYERS[i] for i in range(4) if m >> i & 1]


def as_layer_value(layer, v, rng):
    """present the native value `v` in `layer`: env only takes text; the file cannot hold tuples or repo objects"""
    if layer == "env":
        return text_of(v)
    if layer == "file":
        if tomlable(v):
            return v
        return text_of(v)
    if rng.random() < 0.3 and text_of(v) is not None:
        return text_of(v)
    return v


def cases(ctx: Ctx):
    global OPTS
    rng = ctx.rng
    q = ctx.quick
    OPTS = option_classes()
    names = list(OPTS)
    # 0. several configuration objects and terminals alive in one process (first: never cut by the time budget)
    yield from shared_cases(names, rng, q)
    # 1. every option x every subset of the four layers, distinct valid values per layer
    for name in names:
        cls = OPTS[name]
        vals = valid_values(name, cls)
        if not vals:
            continue
        for sub in subsets():
            for rep in range(1 if q else 3):
                pick = rng.sample(vals, min(len(vals), len(sub))) if len(vals) >= len(sub) else [rng.choice(vals) for _ in sub]
                while len(pick) < len(sub):
                    pick.append(rng.choice(vals))
                sc = {"file": None, "env": {}, "kwargs": [], "overrides": None, "file_via": rng.choice(["env", "arg"]),
                      "kw_label": rng.choice([None, "set by the caller"]), "ov_label": rng.choice([None, "set via command line"]),
                      "tmux": rng.random() < 0.1}
                ok = True
                for layer, v in zip(sub, pick):
                    lv = as_layer_value(layer, v, rng)
                    if lv is None:
                        ok = False
                        break
                    if layer == "file":
                        sc["file"] = [[name, lv]]
                    elif layer == "env":
                        sc["env"] = {name: lv}
                    elif layer == "kwargs":
                        sc["kwargs"] = [[name, lv]]
                    else:
                        sc["overrides"] = [[name, lv]]
                if not ok:
                    continue
                # noise: another option in some layers; None entries in dict layers set nothing
                other = rng.choice([n for n in names if n != name and valid_values(n, OPTS[n])])
                ov = rng.choice(valid_values(other, OPTS[other]))
                r = rng.random()
                if r < 0.25:
                    sc["kwargs"] = sc["kwargs"] + [[other, ov]]
                elif r < 0.4 and text_of(ov) is not None:
                    sc["env"] = dict(sc["env"], **{other: text_of(ov)})
                elif r < 0.55:
                    sc["overrides"] = (sc["overrides"] or []) + [[other, None]]     # None sets nothing
                elif r < 0.65 and "kwargs" not in sub:
                    sc["kwargs"] = sc["kwargs"] + [[name, None]]
                yield {"k": "ctor", "sc": sc}
    # 2. same textual form from every layer
    for name in names:
        for v in valid_values(name, OPTS[name]):
            yield {"k": "text", "opt": name, "value": v}
    # 2b. structured values: every component through every value class on its own, native and textual, every layer
    yield from component_cases(names, q)
    # 3. other spellings (correspondence of the parsers)
    for name in names:
        texts = alt_texts(OPTS[name])
        for t in texts:
            for layer in (["env", "kwargs"] if q else ["env", "kwargs", "overrides", "file"]):
                if layer == "file" and "\\" in t:
                    continue
                yield {"k": "alt", "opt": name, "text": t, "layer": layer}
    for name in names:
        for t in alt_texts(OPTS[name]):
            yield {"k": "envtext", "opt": name, "text": t}
    # 4. wrong types
    for name in names:
        for label, v in wrong_values(OPTS[name]):
            layers = []
            if isinstance(v, str):
                layers = ["env", "kwargs", "file"]
            else:
                layers = ["kwargs", "overrides"] + (["file"] if tomlable(v) else [])
            for layer in (layers[:2] if q else layers):
                yield {"k": "wrong", "opt": name, "value": v, "layer": layer, "label": label}
    # 5. unknown keys, None, provenance label forms
    yield {"k": "ctor", "sc": {"file": [["no_such_option", 1]], "env": {}, "kwargs": [], "overrides": None}}
    yield {"k": "ctor", "sc": {"file": [["no_such_option", 1], ["ignore_unknown_attributes", True], ["scale", 2.5]], "env": {}, "kwargs": [], "overrides": None}}
    yield {"k": "ctor", "sc": {"file": [["scale", 2.5], ["no_such_option", "x"]], "env": {"scale": "3.5"}, "kwargs": [], "overrides": None}}
    yield {"k": "ctor", "sc": {"file": None, "env": {}, "kwargs": [["no_such_option", 1]], "overrides": None}}
    yield {"k": "ctor", "sc": {"file": None, "env": {}, "kwargs": [], "overrides": [["no_such_option", None], ["scale", None], ["max_cols", 5]]}}
    yield {"k": "ctor", "sc": {"file": [], "env": {}, "kwargs": [], "overrides": []}}
    yield {"k": "ctor", "sc": {"file": None, "env": {"num_tmux_layers": "auto"}, "kwargs": [], "overrides": None, "tmux": True}}
    yield {"k": "ctor", "sc": {"file": None, "env": {}, "kwargs": [["num_tmux_layers", "auto"]], "kw_label": "lbl", "overrides": None, "tmux": False}}
    # 6. many options at once, all layers
    for _ in range(60 if q else 600):
        sc = {"file": [], "env": {}, "kwargs": [], "overrides": [], "file_via": rng.choice(["env", "arg"]),
              "kw_label": rng.choice([None, "kw"]), "ov_label": rng.choice([None, "set via command line"]), "tmux": rng.random() < 0.2}
        for name in rng.sample(names, rng.randint(2, 10)):
            vals = valid_values(name, OPTS[name])
            if not vals:
                continue
            for layer in rng.sample(LAYERS, rng.randint(1, 4)):
                lv = as_layer_value(layer, rng.choice(vals), rng)
                if lv is None:
                    continue
                if layer == "env":
                    sc["env"][name] = lv
                else:
                    sc[layer].append([name, lv])
        if not sc["file"] and rng.random() < 0.5:
            sc["file"] = None
        yield {"k": "ctor", "sc": sc, "judge": 4}
    # 7. TOML round trip of generated configurations
    for i in range(40 if q else 400):
        sc = {"file": None, "env": {}, "kwargs": [], "overrides": None, "tmux": rng.random() < 0.2}
        for name in rng.sample(names, rng.randint(0, 12) if i else 0):
            vals = valid_values(name, OPTS[name])
            if vals:
                sc["kwargs"].append([name, rng.choice(vals)])
        if rng.random() < 0.4:
            sc["kwargs"].append(["id_database_dir", rng.choice(["quo\"te", "tab\there", "unié中", "a'b", "hash # not comment", "x=y", "[sec]", "line\nbreak"])])
        if rng.random() < 0.3:
            sc["kwargs"] = [kv for kv in sc["kwargs"] if kv[0] != "supported_formats"] + [["supported_formats", rng.choice([[], ["a b"], ["x,y"], ["é"]])]]
        modes = ["plain", "provenance", "skip_default"]
        yield {"k": "toml", "sc": sc, "modes": modes}
    for i in range(2 if q else 12):
        sc = {"file": [["scale", 2.5], ["max_cols", 33]] if i % 2 else None, "env": {"max_rows": "7"} if i % 3 else {}, "kwargs": [], "overrides": None}
        yield {"k": "toml", "sc": sc, "modes": ["cli"]}
    # 7b. TOML round trip of float options whose values need all 17 significant digits (bit-exact comparison)
    yield from float_roundtrip_cases(names, rng, q)


def run(ctx: Ctx):
    ctx.rule = ("cases: every option (table read from TupimageConfig.__annotations__) x every non-empty subset of the four layers with "
                "distinct valid values per layer (+ noise options, None entries, labelled/unlabelled dictionaries, config via TUPIMAGE_CONFIG or "
                "config=path, inside/outside tmux); every valid value class x its textual form from env/kwargs/overrides/file-string/"
                "file-literal; STRUCTURED values one component at a time (sizes WxH: each of W, H through zero / -1 / negative / 1 / 2^31 / True / "
                "False / float / None / digit text with the other component good, both bad, arity 0/1/3, nested - natively through kwargs and "
                "config_overrides and as text through env/kwargs/overrides/file; subspaces B:E: each bound through 12 classes as text; format "
                "lists: one item of each wrong type in each position): accepted natively => same text accepted everywhere with the same value "
                "and the configuration survives dump -> load, wrong-type component => rejected naming the option; alternative spellings per parser; wrong-type values per class and layer; unknown keys; multi-option "
                "multi-layer scenarios; TOML dump/load in three dump modes, through the file layer and through `python -m tupimage.cli "
                "dump-config`; FLOAT options through the round trip with values that need up to 17 significant digits (1/3, 0.1+0.2, pi, "
                "2.5e-7, subnormal / smallest normal / largest finite, 2^53+2, both one-ulp neighbours of 13 round decimals, the repr "
                "exponent-form boundaries 1e16 / 1e-5, negative, random mantissas at magnitudes 2^-80..2^20 and 1e-12..1e12), every value on "
                "every float option, given through kwargs / config_overrides / file literal / environment text, compared bit-exactly (exact "
                "rational of the double) after dump -> load. SHARED OBJECTS: one process keeps 1-2 TupimageConfig objects (pre-set through "
                "override_from_toml_string / _file, override_from_dict / override, override_from_env) and 2-4 terminals alive - the same "
                "object given to several constructors, each with its own environment / keyword / config_overrides layers or none, "
                "terminals from 'DEFAULT' or a file in between, property assignments and further override_* calls afterwards; after "
                "every step every object alive (each terminal's configuration and the caller's objects) is inspected: the object "
                "acted on against winner / provenanceNames over the layers of that step on top of the configuration it started "
                "from, every other object against what it had before (or, being the same object, what the object acted on has). "
                "distinct = canonical JSON of the case; non-trivial = every case")
    try:
        corpus_dir = Path(__file__).resolve().parent.parent / "corpus" / "C17"
        if corpus_dir.is_dir():
            for f in sorted(corpus_dir.glob("*.json")):
                c = json.load(open(f))
                c = c.get("case", c)
                check_case(ctx, c)
                ctx.case(c)
                ctx.count("corpus")
        for c in cases(ctx):
            if ctx.time_left() < 0:
                ctx.count("skipped-over-budget")
                continue
            check_case(ctx, c)
            ctx.case(c)
    finally:
        close_host()
    ctx.assumptions += [
        "a TupimageConfig object passed as config= may be adopted by the terminal (the unchanged constructor works on the caller's "
        "object: the terminal's effective configuration and the caller's object are then one object, and the layers of every "
        "constructor it is given to are layers given to it); what is judged is that no object reports a value / provenance pair that "
        "neither it nor the object acted on has",
        "generated strings contain no backslashes (toml 0.10.2 mis-escapes a backslash followed by x — third-party)",
        "numeric strings stay inside the modelled grammar of int()/float(): ASCII sign/digits/underscores/point/exponent and surrounding "
        "ASCII whitespace; no inf/nan, no non-ASCII digits",
        "same-text is judged for values that have a textual form: floats by repr(), lists that are non-empty with non-empty items free of "
        "',' and ' ' (the empty list has no textual form — recorded as an observation, not judged)",
        "the bare TOML literal is presented only for int/float/bool options",
        "background values of class bytes/CellFormatting/RowFormatting are not generated (not TOML-able)",
    ]
