"""Shared helpers of the placeholder checks (C07, C13, C14): case encodings, calls of the real
code, the line protocol of drv_ph, parsing of the specification's reply, expected screen
positions (DESIGN.md Appendix A.5)."""
from __future__ import annotations

import io

from .common import hx

BYTECLS = [0, 1, 127, 128, 255]
TABLE = 297


def mods():
    import tupimage.placeholder as ph
    return ph


# ------------------------------------------------------------------------------------------
# encodings
# ------------------------------------------------------------------------------------------
def mode_obj(m):
    """m = [allow256image, allow256placement, skip_if_zero, first, other]; raises ValueError like the code."""
    ph = mods()
    return ph.ImagePlaceholderMode(
        allow_256colors_for_image_id=bool(m[0]),
        allow_256colors_for_placement_id=bool(m[1]),
        skip_placement_id_if_zero=bool(m[2]),
        first_column_diacritic_level=ph.DiacriticLevel(m[3]),
        other_columns_diacritic_level=ph.DiacriticLevel(m[4]),
    )


def mode_str(m):
    return " ".join(str(int(x)) for x in m)


def all_modes():
    return [[a, b, c, f, o] for a in (1, 0) for b in (1, 0) for c in (1, 0) for f in (1, 2, 3, 4) for o in (0, 1, 2, 3, 4)]


def fmt_obj(f):
    """f: {"t":"n"} | {"t":"b","b":hex} | {"t":"r","d":hex,"tab":{"row":hex}} | {"t":"c","d":hex,"tab":{"col.row":hex}}"""
    ph = mods()
    t = f["t"]
    if t == "n":
        return None
    if t == "b":
        return bytes.fromhex(f["b"])
    d = bytes.fromhex(f["d"])
    if t == "r":
        tab = {int(k): bytes.fromhex(v) for k, v in f.get("tab", {}).items()}
        return ph.RowFormatting(lambda row: tab.get(row, d))
    if t == "c":
        tab = {tuple(int(x) for x in k.split(".")): bytes.fromhex(v) for k, v in f.get("tab", {}).items()}
        return ph.CellFormatting(lambda col, row: tab.get((col, row), d))
    raise ValueError(t)


def fmt_str(f):
    t = f["t"]
    if t == "n":
        return "n"
    if t == "b":
        return "b=" + (f["b"] or "-")
    return t + "=" + "/".join([f["d"] or "-"] + [f"{k}:{v or '-'}" for k, v in f.get("tab", {}).items()])


def ph_str(p):
    return " ".join(str(int(x)) for x in p)


def ph_obj(p):
    return mods().ImagePlaceholder(*p)


def in_domain(p):
    """The inputs the property quantifies over (addressable start column, valid ids, non-empty rectangle)."""
    i, pid, sc, sr, ec, er = p
    return 0 < i <= 0xFFFFFFFF and 0 <= pid <= 0xFFFFFF and 0 <= sc < ec and 0 <= sr < er and sc < TABLE


# ------------------------------------------------------------------------------------------
# the real code
# ------------------------------------------------------------------------------------------
def _err(e):
    if isinstance(e, IndexError):
        return "err index"
    if isinstance(e, ValueError):
        return "err value"
    raise e


def impl_lines(p, m, f, noesc):
    """-> ("ok", [bytes…]) | ("err value"|"err index", None)"""
    try:
        mode = mode_obj(m)
        lines = ph_obj(p).to_lines(mode, fmt_obj(f), no_escape=bool(noesc))
    except (ValueError, IndexError) as e:
        return _err(e), None
    return "ok", lines


def impl_stream(style, p, m, f, via="direct"):
    """style: ["cur",save,lf] | ["lfall",noesc] | ["abs",px,py] | ["disp",pos|None,save,lf]
    via: "direct" (ImagePlaceholder methods) | "term" (GraphicsTerminal.print_placeholder, style disp only)"""
    out = io.BytesIO()
    try:
        mode = mode_obj(m)
        fo = fmt_obj(f)
        if via == "term":
            from tupimage.graphics_terminal import GraphicsTerminal
            assert style[0] == "disp"
            term = GraphicsTerminal(out_command=io.BytesIO(), out_display=out, in_response=io.BytesIO(), in_userinput=io.BytesIO())
            pos = tuple(style[1]) if style[1] is not None else None
            # half of the fields through the placeholder argument, half through the overrides
            base = mods().ImagePlaceholder(image_id=p[0], placement_id=7, start_col=p[2], start_row=1, end_col=p[4], end_row=9)
            term.print_placeholder(base, placement_id=p[1], start_row=p[3], end_row=p[5], pos=pos, mode=mode, formatting=fo,
                                   use_save_cursor=bool(style[2]), use_line_feeds=bool(style[3]))
        else:
            o = ph_obj(p)
            if style[0] == "cur":
                o.to_stream_at_cursor(out, mode, fo, use_save_cursor=bool(style[1]), use_line_feeds=bool(style[2]))
            elif style[0] == "lfall":
                o.to_stream_with_linefeeds(out, mode, fo, no_escape=bool(style[1]))
            elif style[0] == "abs":
                o.to_stream_abs_position(out, (style[1], style[2]), mode, fo)
            elif style[0] == "disp":
                pos = tuple(style[1]) if style[1] is not None else None
                o.to_stream(out, pos=pos, mode=mode, formatting=fo, use_save_cursor=bool(style[2]), use_line_feeds=bool(style[3]))
            else:
                raise KeyError(style[0])
    except (ValueError, IndexError) as e:
        return _err(e), None
    return "ok", out.getvalue()


# ------------------------------------------------------------------------------------------
# driver requests
# ------------------------------------------------------------------------------------------
def req_lines(p, m, f, noesc):
    return f"lines {ph_str(p)} {mode_str(m)} {fmt_str(f)} {int(noesc)}"


def style_str(style):
    if style[0] == "cur":
        return f"cur:{int(style[1])}:{int(style[2])}"
    if style[0] == "lfall":
        return f"lf:{int(style[1])}"
    if style[0] == "abs":
        return f"abs:{style[1]}:{style[2]}"
    if style[0] == "disp":
        pos = "-" if style[1] is None else f"{style[1][0]}:{style[1][1]}"
        return f"disp:{pos}:{int(style[2])}:{int(style[3])}"
    raise KeyError(style[0])


def req_stream(style, p, m, f):
    return f"stream {style_str(style)} {ph_str(p)} {mode_str(m)} {fmt_str(f)}"


def req_spec(W, H, cx, cy, cub, rs, onlcr, sgr, data: bytes):
    return f"spec {W} {H} {cx} {cy} {int(cub)} {int(rs)} {int(onlcr)} {sgr[0]} {sgr[1]} {sgr[2]} {hx(data)}"


def model_lines(reply):
    if not reply.startswith("ok"):
        return reply, None
    body = reply[3:]
    return "ok", ([] if body == "" else [b"" if h == "-" else bytes.fromhex(h) for h in body.split(",")])


def model_bytes(reply):
    if not reply.startswith("ok"):
        return reply, None
    body = reply[3:]
    return "ok", (b"" if body in ("-", "") else bytes.fromhex(body))


def parse_spec(reply):
    """-> dict(cur=(x,y), sgr=[fg,ul,bg], scrolled=int, ph={(y,x):(id,pid,row,col)}, cells={(y,x):(ch,marks,fg,ul,bg)})"""
    out = {}
    for part in reply.split(" "):
        k, _, v = part.partition("=")
        out[k] = v
    cx, cy = out["cur"].split(",")
    ph = {}
    if out.get("ph"):
        for e in out["ph"].split(";"):
            y, x, i, pid, r, c = (int(t) for t in e.split(","))
            ph[(y, x)] = (i, pid, r, c)
    cells = {}
    if out.get("cells"):
        for e in out["cells"].split(";"):
            y, x, ch, marks, fg, ul, bg = e.split(",")
            cells[(int(y), int(x))] = (int(ch), tuple(int(t) for t in marks.split(".") if t), fg, ul, bg)
    return dict(cur=(int(cx), int(cy)), sgr=out["sgr"].split("/"), scrolled=int(out["scrolled"]), ph=ph, cells=cells)


# ------------------------------------------------------------------------------------------
# expected screen positions (DESIGN.md A.5) — independent of the model
# ------------------------------------------------------------------------------------------
def expected(style, p, W, H, x0, y0):
    """-> (cells {(y,x): (id,pid,row,col)}, final cursor (x,y), scrolled) for an addressable placeholder
    whose width fits: x0 + C <= W (abs: px + C <= W and py + R <= H)."""
    i, pid, sc, sr, ec, er = p
    R, C = er - sr, ec - sc
    kind = style[0]
    if kind == "disp":
        kind, style = ("abs", ["abs", style[1][0], style[1][1]]) if style[1] is not None else ("cur", ["cur", style[2], style[3]])
    cells = {}
    if kind == "abs":
        px, py = style[1], style[2]
        s = 0
        pos = lambda a, b: (py + a, px + b)
        cur = (px + C, py + R - 1)
    elif kind == "cur" and not style[2]:
        s = max(0, y0 + R - H)
        pos = lambda a, b: (y0 - s + a, x0 + b)
        cur = (x0 + C, min(y0 + R - 1, H - 1))
    elif kind == "cur":
        s = max(0, y0 + R - H)
        pos = lambda a, b: (y0 - s + a, (x0 if a == 0 else 0) + b)
        cur = ((x0 if R == 1 else 0) + C, min(y0 + R - 1, H - 1))
    elif kind == "lfall":
        s = max(0, y0 + R + 1 - H)
        pos = lambda a, b: (y0 - s + a, (x0 if a == 0 else 0) + b)
        cur = (0, min(y0 + R, H - 1))
    else:
        raise KeyError(kind)
    for a in range(R):
        if sr + a >= TABLE:
            continue          # not addressable: printed as blanks
        for b in range(C):
            y, x = pos(a, b)
            if y >= 0:
                cells[(y, x)] = (i, pid, sr + a, sc + b)
    return cells, cur, s


def diff_cells(got: dict, want: dict, limit=4):
    bad = []
    for k in sorted(set(got) | set(want)):
        if got.get(k) != want.get(k):
            bad.append({"pos(y,x)": list(k), "decoded": got.get(k), "expected": want.get(k)})
            if len(bad) >= limit:
                break
    return bad
