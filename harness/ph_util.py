"""Shared helpers of the placeholder checks (C07, C13, C14): case encodings, calls of the real
code, the line protocol of drv_ph, parsing of the specification's reply, expected screen
positions (DESIGN.md Appendix A.5)."""
from __future__ import annotations

import io

from .common import ToolFailure, hx

BYTECLS = [0, 1, 127, 128, 255]
TABLE = 297


def mods():
    import tupimage.placeholder as ph
    return ph


# ------------------------------------------------------------------------------------------
# encodings
# ------------------------------------------------------------------------------------------
def mode_obj(m):
    """m = [allow256image, allow256placement, skip_if_zero, first, other]; raises ValueError like the code."""
    ph = mods()
    return ph.ImagePlaceholderMode(
        allow_256colors_for_image_id=bool(m[0]),
        allow_256colors_for_placement_id=bool(m[1]),
        skip_placement_id_if_zero=bool(m[2]),
        first_column_diacritic_level=ph.DiacriticLevel(m[3]),
        other_columns_diacritic_level=ph.DiacriticLevel(m[4]),
    )


def mode_str(m):
    return " ".join(str(int(x)) for x in m)


def all_modes():
    return [[a, b, c, f, o] for a in (1, 0) for b in (1, 0) for c in (1, 0) for f in (1, 2, 3, 4) for o in (0, 1, 2, 3, 4)]


def fmt_obj(f):
    """f: {"t":"n"} | {"t":"b","b":hex} | {"t":"r","d":hex,"tab":{"row":hex}} | {"t":"c","d":hex,"tab":{"col.row":hex}}"""
    ph = mods()
    t = f["t"]
    if t == "n":
        return None
    if t == "b":
        return bytes.fromhex(f["b"])
    d = bytes.fromhex(f["d"])
    if t == "r":
        tab = {int(k): bytes.fromhex(v) for k, v in f.get("tab", {}).items()}
        return ph.RowFormatting(lambda row: tab.get(row, d))
    if t == "c":
        tab = {tuple(int(x) for x in k.split(".")): bytes.fromhex(v) for k, v in f.get("tab", {}).items()}
        return ph.CellFormatting(lambda col, row: tab.get((col, row), d))
    raise ValueError(t)


def fmt_str(f):
    t = f["t"]
    if t == "n":
        return "n"
    if t == "b":
        return "b=" + (f["b"] or "-")
    return t + "=" + "/".join([f["d"] or "-"] + [f"{k}:{v or '-'}" for k, v in f.get("tab", {}).items()])


def ph_str(p):
    return " ".join(str(int(x)) for x in p)


def ph_obj(p):
    return mods().ImagePlaceholder(*p)


def in_domain(p):
    """The inputs the property quantifies over (addressable start column, valid ids, non-empty rectangle)."""
    i, pid, sc, sr, ec, er = p
    return 0 < i <= 0xFFFFFFFF and 0 <= pid <= 0xFFFFFF and 0 <= sc < ec and 0 <= sr < er and sc < TABLE


# ------------------------------------------------------------------------------------------
# the real code
# ------------------------------------------------------------------------------------------
def _err(e):
    if isinstance(e, IndexError):
        return "err index"
    if isinstance(e, ValueError):
        return "err value"
    raise e


FIELDS = ("image_id", "placement_id", "start_col", "start_row", "end_col", "end_row")
DEFAULT_MODE = [1, 0, 1, 4, 4]          # ImagePlaceholderMode() — the default of every `mode=` parameter


class Session:
    """What a caller keeps between the calls of ONE sequence case: its GraphicsTerminal objects (`tid`) and its
    ImagePlaceholder objects (`slot`), created once and then re-used / re-assigned field by field, as a long-running
    program does.  `given` remembers what the caller last put into each slot object, so that a library call that
    changes the caller's object is noticed."""

    def __init__(self):
        self.terms = {}
        self.slots = {}
        self.given = {}

    def term(self, tid):
        t = self.terms.get(tid)
        if t is None:
            from tupimage.graphics_terminal import GraphicsTerminal
            out = io.BytesIO()
            t = (GraphicsTerminal(out_command=io.BytesIO(), out_display=out, in_response=io.BytesIO(), in_userinput=io.BytesIO()), out)
            self.terms[tid] = t
        return t

    def placeholder(self, slot, fields):
        if slot is None:
            return ph_obj(fields)
        o = self.slots.get(slot)
        if o is None:
            o = self.slots[slot] = ph_obj(fields)
        else:
            # the caller assigns only the fields it wants changed (it knows what it put there before)
            for n, v, g in zip(FIELDS, fields, self.given[slot]):
                if v != g:
                    setattr(o, n, v)
        self.given[slot] = [int(v) for v in fields]
        return o

    def modified(self):
        """slots whose object no longer holds what the caller put there"""
        return sorted(s for s, o in self.slots.items() if [getattr(o, n) for n in FIELDS] != self.given[s])


def make_obj(sess, call, fields):
    """The ImagePlaceholder a call works on, holding `fields`.  call["make"] says how the caller got it:
        (absent)  the positional constructor, or the session's slot object re-assigned field by field
        "kw"      the keyword constructor
        "clone"   ImagePlaceholder(*call["from"]).clone_with(<the fields that differ>)
        "assign"  ImagePlaceholder(*call["from"]), then the fields that differ assigned as attributes
    (no route validates: whatever the fields hold reaches the emitting call)."""
    how = call.get("make")
    if how is None:
        return sess.placeholder(call.get("slot"), fields) if sess is not None else ph_obj(fields)
    if how == "kw":
        return mods().ImagePlaceholder(**dict(zip(FIELDS, fields)))
    src = call["from"]
    diff = {n: v for n, v, g in zip(FIELDS, fields, src) if v != g}
    o = ph_obj(src)
    if how == "clone":
        return o.clone_with(**diff)
    if how == "assign":
        for n, v in diff.items():
            setattr(o, n, v)
        return o
    raise ToolFailure(f"malformed case: unknown make {how!r}")


def _drop_defaults(kw, m, noesc=None):
    """the call as written by a caller who leaves out every optional argument that has its default value"""
    out = {}
    for k, v in kw.items():
        if k == "mode" and list(m) == DEFAULT_MODE:
            continue
        if k in ("pos", "formatting") and v is None:
            continue
        if k == "use_save_cursor" and v is True:
            continue
        if k in ("use_line_feeds", "no_escape") and v is False:
            continue
        out[k] = v
    return out


def impl_lines(p, m, f, noesc, sess=None, call=None):
    """-> ("ok", [bytes…]) | ("err value"|"err index", None)
    sess/call (sequence cases): the placeholder object of slot call["slot"]; call["omitopt"]: default-valued optional
    arguments are left out of the call; call["make"]: how the object is obtained (make_obj)."""
    call = call or {}
    try:
        mode = mode_obj(m)
        o = make_obj(sess, call, p)
        if call.get("omitopt"):
            lines = o.to_lines(**_drop_defaults(dict(mode=mode, formatting=fmt_obj(f), no_escape=bool(noesc)), m))
        else:
            lines = o.to_lines(mode, fmt_obj(f), no_escape=bool(noesc))
    except (ValueError, IndexError) as e:
        return _err(e), None
    return "ok", lines


def impl_stream(style, p, m, f, via="direct", sess=None, call=None):
    """style: ["cur",save,lf] | ["lfall",noesc] | ["abs",px,py] | ["disp",pos|None,save,lf]
    via: "direct" (ImagePlaceholder methods) | "term" (GraphicsTerminal.print_placeholder, style disp only)
    call["form"] (via term) says how the six fields reach print_placeholder:
        {"base": None, "over": [i…]}                 keyword-only form: the fields `over` by keyword, the others LEFT OUT
                                                     (the request p must then hold their default, 0)
        {"base": "obj", "over": [i…], "junk": [6]}   an ImagePlaceholder (slot call["slot"]) holding p except at `over`,
                                                     where it holds junk[i] and the keyword argument carries p[i]
      without "form": the historical fixed split (three fields by object, three by keyword).
    call["tid"]: which GraphicsTerminal of the session; call["omitopt"]: default-valued optional arguments left out."""
    call = call or {}
    out = io.BytesIO()
    start = 0
    try:
        mode = mode_obj(m)
        fo = fmt_obj(f)
        if via == "term":
            from tupimage.graphics_terminal import GraphicsTerminal
            assert style[0] == "disp"
            if sess is not None:
                term, out = sess.term(call.get("tid", 0))
                start = len(out.getvalue())
            else:
                term = GraphicsTerminal(out_command=io.BytesIO(), out_display=out, in_response=io.BytesIO(), in_userinput=io.BytesIO())
            pos = tuple(style[1]) if style[1] is not None else None
            opt = dict(pos=pos, mode=mode, formatting=fo, use_save_cursor=bool(style[2]), use_line_feeds=bool(style[3]))
            if call.get("omitopt"):
                opt = _drop_defaults(opt, m)
            form = call.get("form")
            if form is None:
                # half of the fields through the placeholder argument, half through the overrides
                base = mods().ImagePlaceholder(image_id=p[0], placement_id=7, start_col=p[2], start_row=1, end_col=p[4], end_row=9)
                term.print_placeholder(base, placement_id=p[1], start_row=p[3], end_row=p[5], **opt)
            else:
                over = list(form["over"])
                kw = {FIELDS[i]: p[i] for i in over}
                if form["base"] is None:
                    if any(p[i] != 0 for i in range(6) if i not in over):
                        raise ToolFailure(f"malformed case: a field left out of the keyword form must be requested as 0: {call}")
                    term.print_placeholder(**kw, **opt)
                else:
                    fields = [form["junk"][i] if i in over else p[i] for i in range(6)]
                    o = make_obj(sess, call, fields)
                    term.print_placeholder(o, **kw, **opt)
        else:
            o = make_obj(sess, call, p)
            if call.get("omitopt"):
                if style[0] == "cur":
                    o.to_stream_at_cursor(out, **_drop_defaults(dict(mode=mode, formatting=fo, use_save_cursor=bool(style[1]),
                                                                     use_line_feeds=bool(style[2])), m))
                elif style[0] == "lfall":
                    o.to_stream_with_linefeeds(out, **_drop_defaults(dict(mode=mode, formatting=fo, no_escape=bool(style[1])), m))
                elif style[0] == "abs":
                    o.to_stream_abs_position(out, (style[1], style[2]), **_drop_defaults(dict(mode=mode, formatting=fo), m))
                elif style[0] == "disp":
                    pos = tuple(style[1]) if style[1] is not None else None
                    o.to_stream(out, **_drop_defaults(dict(pos=pos, mode=mode, formatting=fo, use_save_cursor=bool(style[2]),
                                                           use_line_feeds=bool(style[3])), m))
                else:
                    raise KeyError(style[0])
            elif style[0] == "cur":
                o.to_stream_at_cursor(out, mode, fo, use_save_cursor=bool(style[1]), use_line_feeds=bool(style[2]))
            elif style[0] == "lfall":
                o.to_stream_with_linefeeds(out, mode, fo, no_escape=bool(style[1]))
            elif style[0] == "abs":
                o.to_stream_abs_position(out, (style[1], style[2]), mode, fo)
            elif style[0] == "disp":
                pos = tuple(style[1]) if style[1] is not None else None
                o.to_stream(out, pos=pos, mode=mode, formatting=fo, use_save_cursor=bool(style[2]), use_line_feeds=bool(style[3]))
            else:
                raise KeyError(style[0])
    except (ValueError, IndexError) as e:
        # a refusal normally writes nothing (-> None); whatever reached the stream before the exception is handed back
        return _err(e), (out.getvalue()[start:] or None)
    return "ok", out.getvalue()[start:]


# ------------------------------------------------------------------------------------------
# driver requests
# ------------------------------------------------------------------------------------------
def req_lines(p, m, f, noesc):
    return f"lines {ph_str(p)} {mode_str(m)} {fmt_str(f)} {int(noesc)}"


def style_str(style):
    if style[0] == "cur":
        return f"cur:{int(style[1])}:{int(style[2])}"
    if style[0] == "lfall":
        return f"lf:{int(style[1])}"
    if style[0] == "abs":
        return f"abs:{style[1]}:{style[2]}"
    if style[0] == "disp":
        pos = "-" if style[1] is None else f"{style[1][0]}:{style[1][1]}"
        return f"disp:{pos}:{int(style[2])}:{int(style[3])}"
    raise KeyError(style[0])


def req_stream(style, p, m, f):
    return f"stream {style_str(style)} {ph_str(p)} {mode_str(m)} {fmt_str(f)}"


def req_spec(W, H, cx, cy, cub, rs, onlcr, sgr, data: bytes):
    return f"spec {W} {H} {cx} {cy} {int(cub)} {int(rs)} {int(onlcr)} {sgr[0]} {sgr[1]} {sgr[2]} {hx(data)}"


def model_lines(reply):
    if not reply.startswith("ok"):
        return reply, None
    body = reply[3:]
    return "ok", ([] if body == "" else [b"" if h == "-" else bytes.fromhex(h) for h in body.split(",")])


def model_bytes(reply):
    if not reply.startswith("ok"):
        return reply, None
    body = reply[3:]
    return "ok", (b"" if body in ("-", "") else bytes.fromhex(body))


def parse_spec(reply):
    """-> dict(cur=(x,y), sgr=[fg,ul,bg], scrolled=int, ph={(y,x):(id,pid,row,col)}, cells={(y,x):(ch,marks,fg,ul,bg)})"""
    out = {}
    for part in reply.split(" "):
        k, _, v = part.partition("=")
        out[k] = v
    cx, cy = out["cur"].split(",")
    ph = {}
    if out.get("ph"):
        for e in out["ph"].split(";"):
            y, x, i, pid, r, c = (int(t) for t in e.split(","))
            ph[(y, x)] = (i, pid, r, c)
    cells = {}
    if out.get("cells"):
        for e in out["cells"].split(";"):
            y, x, ch, marks, fg, ul, bg = e.split(",")
            cells[(int(y), int(x))] = (int(ch), tuple(int(t) for t in marks.split(".") if t), fg, ul, bg)
    return dict(cur=(int(cx), int(cy)), sgr=out["sgr"].split("/"), scrolled=int(out["scrolled"]), ph=ph, cells=cells)


# ------------------------------------------------------------------------------------------
# expected screen positions (DESIGN.md A.5) — independent of the model
# ------------------------------------------------------------------------------------------
def expected(style, p, W, H, x0, y0):
    """-> (cells {(y,x): (id,pid,row,col)}, final cursor (x,y), scrolled) for an addressable placeholder
    whose width fits: x0 + C <= W (abs: px + C <= W and py + R <= H)."""
    i, pid, sc, sr, ec, er = p
    R, C = er - sr, ec - sc
    kind = style[0]
    if kind == "disp":
        kind, style = ("abs", ["abs", style[1][0], style[1][1]]) if style[1] is not None else ("cur", ["cur", style[2], style[3]])
    cells = {}
    if kind == "abs":
        px, py = style[1], style[2]
        s = 0
        pos = lambda a, b: (py + a, px + b)
        cur = (px + C, py + R - 1)
    elif kind == "cur" and not style[2]:
        s = max(0, y0 + R - H)
        pos = lambda a, b: (y0 - s + a, x0 + b)
        cur = (x0 + C, min(y0 + R - 1, H - 1))
    elif kind == "cur":
        s = max(0, y0 + R - H)
        pos = lambda a, b: (y0 - s + a, (x0 if a == 0 else 0) + b)
        cur = ((x0 if R == 1 else 0) + C, min(y0 + R - 1, H - 1))
    elif kind == "lfall":
        s = max(0, y0 + R + 1 - H)
        pos = lambda a, b: (y0 - s + a, (x0 if a == 0 else 0) + b)
        cur = (0, min(y0 + R, H - 1))
    else:
        raise KeyError(kind)
    for a in range(R):
        if sr + a >= TABLE:
            continue          # not addressable: printed as blanks
        for b in range(C):
            y, x = pos(a, b)
            if y >= 0:
                cells[(y, x)] = (i, pid, sr + a, sc + b)
    return cells, cur, s


def diff_cells(got: dict, want: dict, limit=4):
    bad = []
    for k in sorted(set(got) | set(want)):
        if got.get(k) != want.get(k):
            bad.append({"pos(y,x)": list(k), "decoded": got.get(k), "expected": want.get(k)})
            if len(bad) >= limit:
                break
    return bad


# ------------------------------------------------------------------------------------------
# sequences of calls in ONE process  (state the library keeps between calls: module-level caches,
# shared default objects, per-object caches, the keyword form of print_placeholder, call order)
# ------------------------------------------------------------------------------------------
def impl_call(sess, c):
    """one call of a sequence -> (status, output); an unexpected exception is a status, not a harness error"""
    f = c.get("fmt", {"t": "n"})
    try:
        if c["k"] in ("lines", "alone"):
            return impl_lines(c["ph"], c["mode"], f, c.get("noesc", 0), sess, c)
        if c["k"] == "stream":
            return impl_stream(c["style"], c["ph"], c["mode"], f, c.get("via", "direct"), sess, c)
    except ToolFailure:
        raise
    except Exception as e:
        return "err " + type(e).__name__, None
    raise ToolFailure(f"unknown call kind {c['k']}")


def run_calls(calls):
    """the whole sequence on the real code, in this process -> [(status, output, modified slots)…]"""
    sess = Session()
    res = []
    for c in calls:
        st, out = impl_call(sess, c)
        res.append((st, out, sess.modified()))
    return res


def _enc(res):
    return [[st, None if out is None else ([l.hex() for l in out] if isinstance(out, list) else out.hex()), mod] for st, out, mod in res]


def _dec(res):
    return [(st, None if out is None else ([bytes.fromhex(l) for l in out] if isinstance(out, list) else bytes.fromhex(out)), mod)
            for st, out, mod in res]


def _serve_sequences():
    """`python -m harness.ph_util --serve-sequences`: a process that has imported the library and never called it; for
    every request line (a JSON list of calls) it forks, the child runs the sequence and answers.  So every sequence
    starts from the state of a fresh interpreter — what `./check --replay` gives — whatever ran before it."""
    import json
    import os
    import sys
    import traceback
    from .common import REPO
    sys.path.insert(0, str(REPO))
    import tupimage.placeholder  # noqa: F401
    import tupimage.graphics_terminal  # noqa: F401
    stdin = sys.stdin.buffer
    stdout = os.fdopen(os.dup(1), "wb")     # the protocol channel; anything the library prints goes to stderr
    os.dup2(2, 1)
    for line in stdin:
        r, w = os.pipe()
        pid = os.fork()
        if pid == 0:
            os.close(r)
            try:
                payload = json.dumps({"ok": _enc(run_calls(json.loads(line)))})
            except BaseException:
                payload = json.dumps({"fail": traceback.format_exc()[-1500:]})
            with os.fdopen(w, "wb") as fw:
                fw.write(payload.encode())
            os._exit(0)
        os.close(w)
        with os.fdopen(r, "rb") as fr:
            data = fr.read()
        os.waitpid(pid, 0)
        stdout.write((data or b'{"fail": "child wrote nothing"}') + b"\n")
        stdout.flush()


class Isolated:
    """client of `--serve-sequences`"""

    def __init__(self):
        import queue
        import subprocess
        import sys
        import threading
        from .common import VERIF
        self.p = subprocess.Popen([sys.executable, "-m", "harness.ph_util", "--serve-sequences"], cwd=str(VERIF),
                                  stdin=subprocess.PIPE, stdout=subprocess.PIPE, bufsize=0)
        self.q = queue.Queue()
        threading.Thread(target=self._reader, daemon=True).start()

    def _reader(self):
        buf = b""
        while True:
            chunk = self.p.stdout.read(1 << 16)
            if not chunk:
                self.q.put(None)
                return
            buf += chunk
            while True:
                i = buf.find(b"\n")
                if i < 0:
                    break
                self.q.put(buf[:i])
                buf = buf[i + 1:]

    def run_many(self, sequences):
        import json
        sequences = list(sequences)
        self.p.stdin.write(b"".join(json.dumps(s).encode() + b"\n" for s in sequences))
        out = []
        for _ in sequences:
            r = self.q.get(timeout=600)
            if r is None:
                raise ToolFailure("the sequence server died")
            r = json.loads(r)
            if "fail" in r:
                raise ToolFailure("sequence server: " + r["fail"])
            out.append(_dec(r["ok"]))
        return out

    def close(self):
        try:
            self.p.stdin.close()
            self.p.wait(timeout=10)
        except Exception:
            self.p.kill()


_ISOLATED = None


def isolated() -> Isolated:
    global _ISOLATED
    if _ISOLATED is None:
        import atexit
        _ISOLATED = Isolated()
        atexit.register(_ISOLATED.close)
    return _ISOLATED


class SubCtx:
    """what the per-call judge sees while judging call #i of a sequence: findings are collected and then reported on
    the WHOLE sequence (cut after the failing call — later calls cannot matter), so that the replay re-creates the state"""

    def __init__(self, ctx, i):
        self.ctx, self.i = ctx, i
        self.found = []

    def driver(self, name):
        return self.ctx.driver(name)

    def count(self, key, n=1):
        self.ctx.count(key, n)

    def violation(self, what, case, detail=None, key=None):
        self.found.append(("F", what, case, detail, key or what))

    def mismatch(self, what, case, impl, model):
        self.found.append(("K", what, case, impl, model))


class _Probe:
    """a context that only records the keys of violations (used while minimising)"""
    no_minimise = True

    def __init__(self, ctx):
        self.ctx, self.keys = ctx, []

    def driver(self, name):
        return self.ctx.driver(name)

    def count(self, key, n=1):
        pass

    def violation(self, what, case, detail=None, key=None):
        self.keys.append(key or what)

    def mismatch(self, what, case, impl, model):
        pass


def seq_requests(c, res, reqs_fn):
    """-> (impl, flat requests) of a sequence case whose calls produced `res`"""
    per = [reqs_fn(call, (st, out)) for call, (st, out, _mod) in zip(c["calls"], res)]
    return ("seq", res, [len(r) for r in per]), [r for rs in per for r in rs]


def seq_judge(ctx, c, impl, replies, judge_fn, check_fn=None):
    """every call judged on its own (judge_fn = the judge of single cases) against what THAT call requested"""
    _, res, counts = impl
    ctx.count("kind:seq")
    ctx.count("seq-len:%d" % min(len(res), 8))
    k = 0
    seen_mod = []
    for i, (call, (st, out, mod), n) in enumerate(zip(c["calls"], res, counts)):
        sub = SubCtx(ctx, i)
        form = call.get("form")
        ctx.count("seq-entry:" + (call.get("via", "direct") + ("" if form is None else (":kw" if form["base"] is None else
                                  (":obj" if not form["over"] else ":obj+kw")))))
        if form is not None and form["base"] is None and len(form["over"]) < 6:
            ctx.count("seq-kw-fields-left-out", 6 - len(form["over"]))
        judge_fn(sub, call, (st, out), replies[k:k + n])
        k += n
        if mod != seen_mod:
            sub.mismatch("the call changed the caller's ImagePlaceholder object", call, {"slots": mod}, {"slots": seen_mod})
            seen_mod = mod
        if not sub.found:
            continue
        whole = dict(c, calls=c["calls"][:i + 1])
        fkeys = [f[4] for f in sub.found if f[0] == "F"]
        if fkeys:
            ctx.count("seq-F-at-call:%d" % min(i, 8))
            if check_fn is not None and not getattr(ctx, "no_minimise", False) and i > 0 and ctx.dist.get("seq-minimised", 0) < 3:
                ctx.count("seq-minimised")
                whole = seq_minimise(ctx, whole, fkeys[0], check_fn)
        last = len(whole["calls"]) - 1
        for f in sub.found:
            if f[0] == "F":
                _, what, case, detail, key = f
                ctx.violation(f"call #{last} of a sequence of calls in one process: {what}", whole,
                              {"call": last, "request": case, "detail": detail}, key=key)
            else:
                _, what, case, im, mo = f
                ctx.mismatch(what + " (call in a sequence)", whole, {"call": last, "impl": im}, mo)
        if fkeys:
            break          # what follows a broken call is not judged


def seq_minimise(ctx, c, key, check_fn):
    """A sub-sequence (ending with the same call) that still fails with `key`, every candidate run in its own fresh
    process: the last call alone, else one earlier call + the last, else the sequence as it is."""
    calls = c["calls"]
    cands = [[calls[-1]]] + [[calls[j], calls[-1]] for j in range(len(calls) - 2, -1, -1)]
    for cand in cands:
        if len(cand) >= len(calls):
            break
        p = _Probe(ctx)
        check_fn(p, dict(c, calls=cand))
        if key in p.keys:
            return dict(c, calls=cand)
    return c


if __name__ == "__main__":
    import sys as _sys
    if "--serve-sequences" in _sys.argv:
        _serve_sequences()
