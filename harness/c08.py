"""C08 — after upload-and-display the terminal shows the requested image in the cells.

Real code: 1..3 in-process `TupimageTerminal`s (pty-hosted, capturing command/display streams with a
global event order) sharing one session database, driven by generated request sequences.
F: every terminal's command stream is parsed into transmissions (inline chunks reassembled, files
read at the moment the command arrives), pixels decoded with PIL into content tokens, and fed to
the adversarial conforming terminal of Tup.Spec.Store (through drv_e2e); at every placeholder
print the specification must hold the requested content under the printed ID with the printed
geometry.  Medium policy is judged on every transmit command.
"""
from __future__ import annotations

import base64
import datetime as _dt
import hashlib
import io
import json
import os
import re
import shutil
import tempfile
from pathlib import Path

from . import e2e_util as U
from .common import Ctx

DRIVERS = ["drv_e2e"]
EVIDENCE = dict(
    level="proof",
    trusted=[
        "PIL decodes PNG/JPEG deterministically; PNG re-encoding is lossless (checked: transmitted pixels are compared with the source pixels)",
        "content tokens: SHA-256 of (size, RGBA bytes)",
        "Tup.Spec.Store: adversarial terminal retaining exactly what the configured thresholds oblige it to",
        "descriptions: json.dumps is injective on (path, mtime, cols, rows); a file's mtime changes when its content does (the harness bumps mtime explicitly)",
    ],
)

PLACEHOLDER = "\U0010eeee"
_ORIG_CWD = os.getcwd()
_tty = None


def tty():
    global _tty
    if _tty is None:
        _tty = U.open_tty()
    return _tty


# ---------------------------------------------------------------------------------------------
# controlled clock for tupimage.id_manager
# ---------------------------------------------------------------------------------------------
class Clock:
    def __init__(self):
        self.t = _dt.datetime(2030, 1, 1, 12, 0, 0, 1)

    def install(self):
        from tupimage import id_manager as im
        clock = self

        class FakeDT(_dt.datetime):
            @classmethod
            def now(cls, tz=None):
                clock.t += _dt.timedelta(microseconds=1000)
                return clock.t

        self._orig = im.datetime
        im.datetime = FakeDT

    def uninstall(self):
        from tupimage import id_manager as im
        im.datetime = self._orig

    def micros(self):
        return int((self.t - _dt.datetime(2030, 1, 1)).total_seconds() * 1_000_000)


# ---------------------------------------------------------------------------------------------
# parsing what the terminals received
# ---------------------------------------------------------------------------------------------
def unwrap_tmux(b: bytes, layers: int) -> bytes:
    for _ in range(layers):
        assert b.startswith(b"\x1bPtmux;") and b.endswith(b"\x1b\\"), b[:40]
        b = b[len(b"\x1bPtmux;"):-2].replace(b"\x1b\x1b", b"\x1b")
    return b


def parse_gfx(b: bytes):
    assert b.startswith(b"\x1b_G") and b.endswith(b"\x1b\\"), b[:40]
    body = b[3:-2]
    if b";" in body:
        hdr, payload = body.split(b";", 1)
    else:
        hdr, payload = body, b""
    keys = {}
    for kv in hdr.split(b","):
        k, v = kv.split(b"=", 1)
        keys[k.decode()] = v.decode()
    return keys, base64.b64decode(payload, validate=True) if payload else b""


def token_of_image(img) -> str:
    im = img.convert("RGBA")
    return hashlib.sha256(repr(im.size).encode() + im.tobytes()).hexdigest()[:20]


def decode_placeholders(data: bytes):
    """Minimal decoder of the display stream: returns {(image_id, placement_id): set of (row, col)}.
    (Per-cell decoding against the terminal specification is C07's business; here we only need
    which ID and which rectangle were printed.)"""
    from tupimage.placeholder import ROWCOLUMN_DIACRITICS
    idx = {c: i for i, c in enumerate(ROWCOLUMN_DIACRITICS)}
    s = data.decode("utf-8")
    out = {}
    fg = ul = 0
    prev = None
    i = 0
    n = len(s)
    while i < n:
        ch = s[i]
        if ch == "\x1b":
            m = re.match(r"\x1b\[([0-9;]*)m", s[i:])
            if m:
                ps = [int(x) if x else 0 for x in m.group(1).split(";")] if m.group(1) else [0]
                j = 0
                while j < len(ps):
                    p = ps[j]
                    if p == 0:
                        fg = ul = 0
                    elif p in (38, 58, 48) and j + 2 < len(ps) + 1 and ps[j + 1] == 5:
                        if p == 38:
                            fg = ps[j + 2]
                        elif p == 58:
                            ul = ps[j + 2]
                        j += 2
                    elif p in (38, 58, 48) and ps[j + 1] == 2:
                        v = (ps[j + 2] << 16) | (ps[j + 3] << 8) | ps[j + 4]
                        if p == 38:
                            fg = v
                        elif p == 58:
                            ul = v
                        j += 4
                    j += 1
                i += m.end()
                prev = prev  # colours changed: handled by comparing fg/ul below
                continue
            m = re.match(r"\x1b\[[0-9;]*[A-Za-z]|\x1b[DEc78M]", s[i:])
            i += m.end() if m else 1
            prev = None
            continue
        if ch == PLACEHOLDER:
            j = i + 1
            ds = []
            while j < n and s[j] in idx:
                ds.append(idx[s[j]])
                j += 1
            same = prev is not None and prev["fg"] == fg and prev["ul"] == ul
            row = col = msb = 0
            if len(ds) == 0:
                if same:
                    row, col, msb = prev["row"], prev["col"] + 1, prev["msb"]
            elif len(ds) == 1:
                row = ds[0]
                if same and prev["row"] == row:
                    col, msb = prev["col"] + 1, prev["msb"]
            elif len(ds) == 2:
                row, col = ds
                if same and prev["row"] == row and prev["col"] + 1 == col:
                    msb = prev["msb"]
            else:
                row, col, msb = ds[:3]
            prev = dict(fg=fg, ul=ul, row=row, col=col, msb=msb)
            out.setdefault(((msb << 24) | fg, ul), set()).add((row, col))
            i = j
            continue
        prev = None
        i += 1
    return out


def _tmux_forward(stream: bytes, st) -> bytes:
    """one tmux instance: forward the bodies of `ESC P tmux; … ESC \\` wrappers, un-doubling ESC ESC;
    a lone ESC inside a wrapper makes the wrapper malformed (dropped); bytes outside wrappers are not forwarded"""
    out = bytearray()
    i = 0
    n = len(stream)
    pre = b"\x1bPtmux;"
    while i < n:
        j = stream.find(pre, i)
        if j < 0:
            if stream[i:].strip(b"\r\n"):
                st.malformed += 1
            break
        if stream[i:j].strip(b"\r\n"):
            st.malformed += 1
        k = j + len(pre)
        body = bytearray()
        ok = False
        while k < n:
            c = stream[k]
            if c == 0x1B:
                if k + 1 < n and stream[k + 1] == 0x1B:
                    body.append(0x1B)
                    k += 2
                    continue
                if k + 1 < n and stream[k + 1] == 0x5C:
                    ok = True
                    k += 2
                break
            body.append(c)
            k += 1
        if ok:
            out += body
            i = k
        else:
            st.malformed += 1
            i = k + 1
    return bytes(out)


def _apc_codes(stream: bytes, st):
    codes = []
    i = 0
    n = len(stream)
    while i < n:
        j = stream.find(b"\x1b_G", i)
        if j < 0:
            if stream[i:]:
                st.malformed += 1
            break
        if stream[i:j]:
            st.malformed += 1
        e = stream.find(b"\x1b\\", j)
        if e < 0:
            st.malformed += 1
            break
        codes.append(stream[j:e + 2])
        i = e + 2
    return codes


class SpecTerminal:
    """Feeds one terminal's command stream into the arrival log of Tup.Spec.Store."""

    def __init__(self, name, layers=0, formats=None):
        self.name = name
        self.layers = layers
        self.formats = formats     # encoded formats this terminal decodes under f=100 (None: whatever PIL reads)
        self.log = []          # newest first: dict(id, token, rows, cols, size, time)
        self.partial = None    # inline transfer in progress
        self.pos = 0
        self.transmits = []    # (keys, payload) of first chunks / file commands, for the medium policy
        self.malformed = 0     # wrappers / commands the terminal side could not make sense of (nothing arrives)

    def feed(self, data: bytes, now: int, on_transmit):
        # what reaches the real terminal behind `layers` tmux instances: each instance forwards the bodies of
        # well-formed pass-through wrappers (ESC ESC -> ESC) and keeps everything else to itself
        stream = bytes(data)
        for _ in range(self.layers):
            stream = _tmux_forward(stream, self)
        codes = _apc_codes(stream, self)
        for code in codes:
            try:
                keys, payload = parse_gfx(code)
            except Exception:
                self.malformed += 1
                continue
            a = keys.get("a")
            if a in ("t", "T", "q") or (a is None and ("m" in keys) and self.partial is not None):
                pass
            if a in ("t", "T"):
                on_transmit(self, keys, payload)
                if self.partial is not None:
                    self._arrive_incomplete(now)
                medium = keys.get("t", "d")
                if medium == "d":
                    self.partial = dict(keys=keys, data=bytearray(payload))
                    if keys.get("m", "0") == "0":
                        self._complete(now)
                else:
                    path = os.fsdecode(bytes(payload))      # file names are bytes; not all are UTF-8
                    try:
                        content = open(path, "rb").read()
                    except OSError:
                        content = None
                    if medium == "t" and content is not None:
                        # a terminal deletes a temporary file after reading it (kitty: only if the name contains this marker)
                        if os.path.basename(path).startswith("tty-graphics-protocol") and os.path.isfile(path) \
                                and os.path.realpath(path).startswith(os.path.realpath(tempfile.gettempdir()) + os.sep):
                            os.unlink(path)
                    self.partial = dict(keys=keys, data=content)
                    self._complete(now)
            elif a is None and self.partial is not None and set(keys) <= {"i", "I", "m"}:
                self.partial["data"] += payload
                if keys.get("m", "0") == "0":
                    self._complete(now)
            # other commands (put, delete) are not produced by the display path

    def _arrive_incomplete(self, now):
        k = self.partial["keys"]
        self.log.insert(0, dict(id=int(k.get("i", 0)), token="INCOMPLETE", rows=0, cols=0, size=0, time=now))
        self.partial = None

    def _complete(self, now):
        from PIL import Image
        k = self.partial["keys"]
        data = self.partial["data"]
        self.partial = None
        token = "UNREADABLE"
        size = 0
        if data is not None:
            size = len(data)
            try:
                img = Image.open(io.BytesIO(bytes(data)))
                img.load()
                if self.formats is not None and (img.format or "").lower() not in self.formats:
                    raise ValueError("this terminal does not decode " + str(img.format))
                token = token_of_image(img) + f"@{img.size[0]}x{img.size[1]}"
            except Exception:
                token = "UNDECODABLE"
        rows = int(k.get("r", 0)) if k.get("U") == "1" else 0
        cols = int(k.get("c", 0)) if k.get("U") == "1" else 0
        self.log.insert(0, dict(id=int(k.get("i", 0)), token=token, rows=rows, cols=cols, size=size, time=now))

    def wire_log(self):
        if self.partial is not None:
            k = self.partial["keys"]
            extra = [dict(id=int(k.get("i", 0)), token="INCOMPLETE", rows=0, cols=0, size=0, time=0)]
        else:
            extra = []
        l = extra + self.log
        return ",".join(f"{a['id']}:{a['token']}:{a['rows']}:{a['cols']}:{a['size']}:{a['time']}" for a in l) or "-"


# ---------------------------------------------------------------------------------------------
# K "display model": the scenario replayed through Model.Display (drv_e2e `display …`)
# ---------------------------------------------------------------------------------------------
AGE_GUARD_US = 10_000


class DisplayK:
    """Collects, while a scenario runs on the real code, the abstract request list of `Model.Display` with the
    implementation's choices as inputs, and what the real code did per request; `finish()` replays the list
    through the model (drv_e2e) and compares, request by request:
      real "bytes were written to the command stream" (+ the `i=` of the transmit command)  vs  model transmit event,
      printed (id, rows, cols) decoded from the display stream                               vs  model print event,
      id of the returned instance / placeholder, or an exception                             vs  model result.
    Inputs taken from the implementation (never predicted): per `get_id` call its arguments (description, space,
    subspace), the returned id, the sampled candidates (SQL trace) and the rows each internal clean-up removed
    (table reads around the DELETE); the description / availability of an `ImageInstance` before the call; the
    transmitted size (bytes that reached the terminal).
    Time: the model executes a request at ONE clock value, the real code reads the patched clock up to three times
    per request (each read +1 ms).  The model is given the clock value at the START of each request: all time
    stamps written by different requests keep their order (one stamped write per table per request), which is all
    that LRU recycling and uploads_ago / bytes_ago depend on; only the age test `now - upload_time > max` could
    differ, within 2 ms of its boundary — a scenario that comes within AGE_GUARD_US of it is skipped (counted).
    Anything that cannot be mapped faithfully sets `skip` (counted as K-display:skipped:<why>)."""

    def __init__(self, ctx, c, cfg, terms, dbfile, clock, thr, ssh):
        import sqlite3
        from . import dbutil as D
        self.D = D
        self.ctx, self.c, self.cfg, self.terms, self.clock, self.thr, self.ssh = ctx, c, cfg, terms, clock, thr, ssh
        self.steps = []          # wire tokens
        self.real = []           # one dict per R step
        self.skip = None
        self.gets = []           # get_id calls observed since the last begin()
        self.tx = []             # transmit commands observed since the last begin(): (terminal name, i=)
        self.cur = None
        self.conn2 = sqlite3.connect(dbfile, isolation_level=None)
        self.traces = []
        m = cfg.get("upload_method", "auto")
        self.method = m if m in ("auto", "file", "direct") else None
        if self.method is None:
            self.skip = "upload-method-form"
        # (the terminal id is fixed by `terminal_id=`, with or without `redetect_terminal`)
        for ti, T in enumerate(terms):
            self._wrap(ti, T["t"].id_manager)

    def give_up(self, why):
        if self.skip is None:
            self.skip = why

    def _wrap(self, ti, man):
        D = self.D
        tr = D.SqlTrace(man.conn)
        self.traces.append(tr)
        orig = man.get_id
        me = self

        def get_id(description, id_space, *, subspace=None):
            if subspace is None:
                me.give_up("get_id-default-subspace")
                return orig(description, id_space)
            ns = id_space.namespace_name()
            tr.take()
            snaps, pending = [], [None]

            def settle():
                if pending[0] is not None:
                    post = {r[0] for r in me.conn2.execute(f"SELECT id FROM {ns}")}
                    snaps.append(sorted(pending[0] - post))
                    pending[0] = None

            def hook(stmt):
                settle()
                if D._RX_DELETE_IN.match(stmt):
                    pending[0] = {r[0] for r in me.conn2.execute(f"SELECT id FROM {ns}")}

            tr.hook = hook
            rid = None
            try:
                rid = orig(description, id_space, subspace=subspace)
                return rid
            finally:
                tr.hook = None
                settle()
                rounds, _n, _b = D.get_id_trace_choices(tr.take())
                me.gets.append(dict(ti=ti, desc=description, cb=id_space.color_bits, u3=id_space.use_3rd_diacritic,
                                    b=subspace.begin, e=subspace.end, rid=rid, rounds=rounds, removed=snaps))

        man.get_id = get_id

    # -- per step ---------------------------------------------------------------------------------
    def begin(self):
        self.gets, self.tx = [], []
        self.at = self.clock.micros()

    def note_transmit(self, name, keys):
        self.tx.append((name, keys.get("i")))

    @staticmethod
    def _desc_fields(description):
        try:
            p = json.loads(description)
            return hashlib.sha1(description.encode()).hexdigest()[:16], int(p["rows"]), int(p["cols"])
        except Exception:
            return None

    def _alloc_target(self, raised=False):
        """(target token, description fields) from the single get_id call of this step"""
        if raised and not self.gets:
            self.give_up("raised-before-get_id")     # e.g. the image could not be opened: the database was never reached
            return None
        if len(self.gets) != 1:
            self.ctx.mismatch("display model: number of get_id calls in one assign_id", self.c, len(self.gets), 1)
            self.give_up("get_id-calls")
            return None
        g = self.gets[0]
        f = self._desc_fields(g["desc"])
        if f is None:
            self.give_up("description-not-json")
            return None
        D = self.D
        tg = f"a@{g['cb']}@{1 if g['u3'] else 0}@{g['b']}@{g['e']}@{g['rid'] if g['rid'] is not None else 0}@{D._enc_rounds(g['rounds'])}@{D._enc_rounds(g['removed'])}"
        return tg, f

    def env_assign(self, req, inst):
        """`assign_id` alone: an environment step of the model (`get_id` / `set_id` by any user of the database)"""
        if self.skip:
            return
        if req.get("force_id") is not None:
            if self.gets:
                self.give_up("get_id-with-force_id")
                return
            f = self._desc_fields(inst.get_description()) if inst is not None else None
            if f is None:
                self.give_up("forced-assign-raised")
                return
            self.steps.append(f"S;{self.at};{req['force_id']};{f[0]};{f[1]};{f[2]}")
        else:
            a = self._alloc_target(raised=inst is None)
            if a is None:
                return
            self.steps.append(f"G;{self.at};{a[0]};{a[1][0]};{a[1][1]};{a[1][2]}")

    def env_del(self, i):
        if not self.skip:
            self.steps.append(f"D;{self.at};{i}")

    def request(self, ti, req, *, entry=None, inst_desc=None, inst_id=None, is_file=None, available=None, display,
                ret, cmd_bytes, printed, raised):
        """one `upload` / `upload_and_display` of the real code, finished (normally or by an exception)"""
        if self.skip:
            return
        name = self.terms[ti]["spec"].name
        for tj, T in enumerate(self.terms):
            if tj != ti and (len(T["cmd"].value()) != T["cpos"] or len(T["disp"].value()) != T["dpos"]):
                self.ctx.mismatch("display model: a request wrote to another terminal", self.c, {"request": req, "other": T["spec"].name}, "nothing")
                self.give_up("wrote-to-other-terminal")
                return
        if inst_id is not None:
            if self.gets:
                self.ctx.mismatch("display model: get_id called for an ImageInstance", self.c, req, "no get_id")
                self.give_up("get_id-calls")
                return
            tg, f = f"i@{inst_id}", self._desc_fields(inst_desc)
            if f is None:
                self.give_up("description-not-json")
                return
        elif req.get("force_id") is not None:
            if self.gets:
                self.give_up("get_id-with-force_id")
                return
            tg = f"f@{req['force_id']}"
            row = None
            try:
                from tupimage import id_manager as im
                ns = im.IDSpace.from_id(req["force_id"]).namespace_name()
                row = self.conn2.execute(f"SELECT description FROM {ns} WHERE id=?", (req["force_id"],)).fetchone()
            except ValueError:
                pass
            f = self._desc_fields(row[0]) if row else None
            if f is None:
                if not raised:
                    self.give_up("forced-row-missing")
                    return
                f = ("unbound", 0, 0)      # set_id raised: the model's result does not depend on the description
        else:
            a = self._alloc_target(raised=raised)
            if a is None:
                return
            tg, f = a
        if entry is not None:
            is_file = entry["image"] is None
            available = bool(entry["path"]) and os.path.exists(entry["path"])
        spec = self.terms[ti]["spec"]
        size = 0
        if self.tx:
            if spec.partial is not None or not spec.log or str(spec.log[0]["id"]) != str(self.tx[-1][1]):
                self.give_up("incomplete-transfer")
                return
            size = spec.log[0]["size"]
        force = req.get("force_upload")
        if force is None:
            force = bool(self.cfg.get("force_upload", False))
        method = {"f": "file", "d": "direct"}.get(req.get("upload_method"), req.get("upload_method")) or self.method   # per call, else configured
        self.steps.append(f"R;{self.at};{name};{tg};{f[0]};{f[1]};{f[2]};{size};{1 if force else 0};{1 if display else 0};"
                          f"{method};{1 if self.ssh else 0};{1 if is_file else 0};{1 if available else 0}")
        self.real.append(dict(req=req, term=name, tx=list(self.tx), cmd_bytes=cmd_bytes, printed=printed, ret=ret, raised=raised))

    # -- the comparison ---------------------------------------------------------------------------
    def finish(self):
        for tr in self.traces:
            tr.close()
        self.conn2.close()
        ctx = self.ctx
        if self.skip:
            ctx.count("K-display:skipped:" + self.skip)
            return
        if not self.real:
            ctx.count("K-display:skipped:no-requests")
            return
        line = (f"display {self.cfg.get('max_ids_per_subspace', 1024)} 1 {self.thr[0]} {self.thr[1]} {self.thr[2]} " + " ".join(self.steps))
        reply = ctx.driver("drv_e2e").ask(line).split(" ")
        if reply[0] != "ok" or len(reply) != 1 + len(self.real):
            ctx.mismatch("display model: driver rejected the replay", self.c, {"steps": self.steps[:40]}, " ".join(reply)[:200])
            return
        outs = [r.split(";") for r in reply[1:]]
        if any(o[3] != "-" and int(o[3]) <= AGE_GUARD_US for o in outs):
            ctx.count("K-display:skipped:age-test-within-guard-of-boundary")
            return
        ctx.count("K-display:scenarios-compared")
        small = self.thr[0] < 1024 or self.thr[1] < 20 * 1024 * 1024
        for k, (o, r) in enumerate(zip(outs, self.real)):
            mtx, mpr, mret = o[0], o[1], o[2]
            if r["cmd_bytes"] == 0 and not r["tx"]:
                rtx = "-"
            elif len(r["tx"]) == 1:
                rtx = f"t@{r['tx'][0][0]}@{r['tx'][0][1]}"
            else:
                rtx = f"bytes={r['cmd_bytes']},transmit-commands={[t[1] for t in r['tx']]}"
            if len(r["printed"]) == 0:
                rpr = "-"
            elif len(r["printed"]) == 1:
                rpr = "p@%s@%d@%d@%d" % ((r["term"],) + tuple(r["printed"][0]))
            else:
                rpr = f"several:{sorted(r['printed'])}"
            rret = "none" if r["raised"] else str(r["ret"])
            ctx.count("K-display:requests-compared")
            ctx.count(f"K-display:{'small' if small else 'default'}-thresholds:{'transmit' if mtx != '-' else 'no-transmit'}")
            if (rtx, rpr, rret) != (mtx, mpr, mret):
                ctx.mismatch("display model", self.c, {"request_index": k, "request": r["req"], "transmit": rtx, "print": rpr, "returned": rret},
                             {"transmit": mtx, "print": mpr, "returned": mret})
                return      # the model state has diverged; later requests would only repeat the finding


# ---------------------------------------------------------------------------------------------
# scenario execution
# ---------------------------------------------------------------------------------------------
# file names as a caller may meet them: spaces and shell/format metacharacters, a leading dash, non-ASCII UTF-8, a line break,
# and names that are NOT valid UTF-8 (Python shows the odd bytes as lone surrogates)
ODD_NAMES = ["tty-graphics-protocol-copy", "tty-graphics-protocol-", " sp ace %d 'q' \"w\"", "-dash", "caf\u00e9 \u00fc", "\u65e5\u672c\u8a9e", "a;b=c,d", "line\nbreak", "caf\udce9", "\udcff\udcfe x", "e\u0301 nfd"]


def _make_pool(td, spec):
    """image pool: list of dict(kind, path|None, image|None)"""
    from PIL import Image
    pool = []
    for i, (kind, w, h, seed, *name) in enumerate(spec):
        img = U.noise_image(w, h, seed, "RGBA" if kind.endswith("rgba") else "RGB")
        if kind in ("openjpeg", "openpng"):
            # an in-memory image the caller got from PIL's Image.open (it remembers the format of its source file)
            p = os.path.join(td, f"src{i}." + ("jpg" if kind == "openjpeg" else "png"))
            img.save(p, format="JPEG" if kind == "openjpeg" else "PNG")
            o = Image.open(p)
            o.load()
            pool.append(dict(kind=kind, image=o, path=None))
        elif kind == "home":
            # a file in the caller's home directory, requested as `~/name`
            os.makedirs(os.path.join(td, "home"), exist_ok=True)
            p = os.path.join(td, "home", f"h{i}.png")
            img.save(p, format="PNG")
            pool.append(dict(kind=kind, image=None, path=p, arg=f"~/h{i}.png"))
        elif kind == "missing":
            # a file name under which nothing exists
            pool.append(dict(kind=kind, image=None, path=os.path.join(td, f"nothing-here-{i}.png"), absent=True))
        elif kind == "colon":
            # a name of the form the library reserves for images that are not files (leading colon)
            pool.append(dict(kind=kind, image=None, path=f":c08:{i}", absent=True))
        elif kind.startswith("mem"):
            pool.append(dict(kind=kind, image=img, path=None))
        elif kind == "png":
            # an optional 5th element is the file's base name (str as Python sees file names: bytes that are not UTF-8 appear
            # as lone surrogates); the index keeps names distinct
            p = os.path.join(td, (f"{name[0]}{i}.png" if name[0].startswith("tty-graphics-protocol-") else f"{i}{name[0]}.png") if name else f"img{i}.png")
            with open(p, "wb") as f:
                img.save(f, format="PNG")
            pool.append(dict(kind=kind, image=None, path=p))
        elif kind == "jpeg":
            p = os.path.join(td, f"{i}{name[0]}.jpg" if name else f"img{i}.jpg")
            with open(p, "wb") as f:
                img.save(f, format="JPEG")
            pool.append(dict(kind=kind, image=None, path=p))
        elif kind.startswith("rel"):
            # different files under the SAME relative name in different directories, with equal mtime: requested by
            # the relative name from inside their directory ("rel0" -> dir d0, "rel1" -> dir d1, …)
            sub = os.path.join(td, "d" + kind[3:])
            os.makedirs(sub, exist_ok=True)
            p = os.path.join(sub, "same-name.png")
            img.save(p, format="PNG")
            os.utime(p, (1_700_000_000, 1_700_000_000))
            pool.append(dict(kind=kind, image=None, path=p, rel="same-name.png", cwd=sub))
    return pool


def _expected_token(entry):
    from PIL import Image
    if entry.get("absent"):
        return "NO-SUCH-IMAGE", (0, 0), "RGB"       # nothing a terminal could hold matches this
    if entry["image"] is not None:
        img = entry["image"]
    else:
        img = Image.open(entry["path"])
        img.load()
    return token_of_image(img) + f"@{img.size[0]}x{img.size[1]}", img.size, img.mode


def check_case(ctx: Ctx, c: dict):
    if c.get("k") == "cli-stress":
        return cli_stress(ctx, c)
    if c.get("k") == "cli-seq":
        from .c08_cli import check_cli_seq
        return check_cli_seq(ctx, c)
    if c.get("k") == "terminal-switch":
        from .termid import check_terminal_switch
        return check_terminal_switch(ctx, c, "C08")
    d = ctx.driver("drv_e2e")
    td = tempfile.mkdtemp(prefix="vc08")
    # the library's temporary files of this case go to a directory of their own (removed with the case): other checks may be
    # running at the same time, and nothing of theirs under the shared temp directory may be touched
    os.makedirs(os.path.join(td, "tmp"))
    tempfile.tempdir = os.path.join(td, "tmp")
    clock = Clock()
    clock.install()
    U.scrub_env()
    home0 = os.environ.get("HOME")
    try:
        if c.get("ssh"):
            os.environ["SSH_CONNECTION"] = "1.2.3.4 5 6.7.8.9 22"
        cfg = dict(c["config"])
        thr = (cfg.get("reupload_max_uploads_ago", 1024), cfg.get("reupload_max_bytes_ago", 20 * 1024 * 1024),
               cfg.get("reupload_max_seconds_ago", 3600) * 1_000_000)
        log = U.EventLog()
        nterm = c["terminals"]
        terms = []
        for i in range(nterm):
            # the terminal program behind each object (TERM / XTVERSION name): `st` decodes JPEG too, everything else PNG only; a
            # configured `supported_formats` is the user's statement about ALL terminals of the scenario
            tname = (c.get("term_names") or ["xterm-kitty"])[i % len(c.get("term_names") or ["xterm-kitty"])]
            t, cmd, disp = U.make_terminal(os.path.join(td, "s.db"), f"T{i}", log, tty(), terminal_name=tname, **cfg)
            fmts = set(cfg["supported_formats"]) if isinstance(cfg.get("supported_formats"), list) else ({"png", "jpeg"} if tname.startswith("st") else {"png"})
            terms.append(dict(t=t, cmd=cmd, disp=disp, spec=SpecTerminal(f"T{i}", layers=cfg.get("num_tmux_layers", 0), formats=fmts), cpos=0, dpos=0))
        pool = _make_pool(td, c["pool"])
        if any(e["kind"] == "home" for e in pool):
            os.environ["HOME"] = os.path.join(td, "home")
        method_cfg = cfg.get("upload_method", "auto")

        def _rf(req=None):
            """does the upload method in force for this request (per-call argument, else the configured one) resolve to a file medium?"""
            m = (req or {}).get("upload_method") or method_cfg
            return (m in ("file", "f")) or (m == "auto" and not c.get("ssh"))
        cur_req = [None]
        tx_rf = {}
        library_files = set()
        instances = {}     # name -> (ImageInstance, pool index at creation)
        inst_version = {}  # name -> version of the (in-memory) pool image when the instance was made
        kd = DisplayK(ctx, c, cfg, terms, os.path.join(td, "s.db"), clock, thr, bool(c.get("ssh")))

        def on_transmit(spec, keys, payload):
            medium = keys.get("t", "d")
            if keys.get("i") is not None:
                # the size limit that applies to an arrival is the one of the method in force for the request that SENT it
                tx_rf[(spec.name, str(keys["i"]))] = _rf(cur_req[0])
            kd.note_transmit(spec.name, keys)
            ctx.count("medium:" + medium)
            if spec.formats and "jpeg" in spec.formats:
                ctx.count("medium:" + medium + ":to-a-terminal-that-decodes-jpeg")
            if medium in ("f", "t"):
                path = os.fsdecode(bytes(payload))      # file names are bytes; not all are UTF-8
                if not _rf(cur_req[0]):
                    ctx.violation("file medium used although the resolved upload method is inline", c,
                                  {"keys": keys, "path": path, "ssh": bool(c.get("ssh")), "method": (cur_req[0] or {}).get("upload_method") or method_cfg},
                                  key="file-medium-when-inline")
                user_files = {e["path"] for e in pool if e["path"]}
                if medium == "t" and (path in user_files or not os.path.basename(path).startswith("tty-graphics-protocol-")):
                    ctx.violation("delete-after-reading medium announced for a file the library did not create", c,
                                  {"path": path}, key="tempfile-medium-for-user-file")

        def sync(ti, req, expect=None):
            """feed new command bytes to the spec terminal, then judge new placeholder prints"""
            T = terms[ti]
            data = T["cmd"].value()[T["cpos"]:]
            T["cpos"] += len(data)
            # order matters only within one request: the library writes commands before it prints
            ev_cmd_last = max([e[0] for e in log.events if e[1] == "cmd:" + T["spec"].name and e[2] == "write"] or [-1])
            T["spec"].feed(data, clock.micros(), on_transmit)
            disp = T["disp"].value()[T["dpos"]:]
            T["dpos"] += len(disp)
            printed = decode_placeholders(disp) if disp else {}
            seen = (len(data), [(iid, 1 + max(r for r, _ in cells), 1 + max(cc for _, cc in cells)) for (iid, _pid), cells in printed.items()])
            first_disp = min([e[0] for e in log.events[T.get("evpos", 0):] if e[1] == "disp:" + T["spec"].name and e[2] == "write"] or [1 << 60])
            T["evpos_prev"] = T.get("evpos", 0)
            T["evpos"] = len(log.events)
            for (iid, pid), cells in printed.items():
                rows = 1 + max(r for r, _ in cells)
                cols = 1 + max(cc for _, cc in cells)
                ctx.count("prints")
                if expect is None:
                    continue
                token, erows, ecols = expect["token"], expect["rows"], expect["cols"]
                token = _downscale_aware(ctx, c, req, token, expect["size"], expect["mode"], cfg, T["spec"], iid, expect["entry"],
                                         tx_rf.get((T["spec"].name, str(iid)), expect["is_file"]))
                # The command stream may be buffered and is distinct from the display stream: command bytes have surely reached the
                # terminal only at the flush that follows them; the placeholder may arrive as soon as it is written.
                cmd_arrival = min([e[0] for e in log.events if e[1] == "cmd:" + T["spec"].name and e[2] == "flush" and e[0] > ev_cmd_last] or [1 << 61]) \
                    if ev_cmd_last >= 0 else -1
                if ev_cmd_last > first_disp or (cmd_arrival > first_disp and ev_cmd_last >= T.get("evpos_prev", 0)):
                    ctx.violation("a transmit command was written (or still unflushed) when the placeholder was printed", c,
                                  dict(req, last_command_write=ev_cmd_last, command_flushed_at=cmd_arrival if cmd_arrival < (1 << 61) else None,
                                       first_placeholder_write=first_disp), key="print-before-transmit")
                r = d.ask(f"printok {thr[0]} {thr[1]} {thr[2]} {iid} {token} {rows} {cols} {clock.micros()} {T['spec'].wire_log()}")
                ok, shows = r.split(" ", 1)
                if ok != "1":
                    ctx.violation("placeholder printed for an image the terminal does not hold (wrong/missing/incomplete/evicted content or geometry)",
                                  c, {"request": req, "printed_id": iid, "printed": [rows, cols], "expected_token": token,
                                      "terminal_holds": shows, "terminal": T["spec"].name}, key=_vkey(req, shows, token))
                if erows is not None and (rows, cols) != (erows, ecols):
                    ctx.violation("printed rectangle differs from the requested rows/cols", c, {"request": req, "printed": [rows, cols]},
                                  key="geometry")
            acc["bytes"] += seen[0]
            acc["printed"] += seen[1]

        acc = {"bytes": 0, "printed": []}     # what sync() saw during the current request (for the K "display model")
        for req in c["requests"]:
            op = req["op"]
            if req.get("force_id_of") is not None:
                # the caller forces the id that an instance it obtained earlier carries (whatever that id is at run time)
                ent_ = instances.get(req["force_id_of"])
                if ent_ is None or ent_[0].id is None:
                    continue
                req = dict(req, force_id=ent_[0].id)
            ctx.count("op:" + op)
            ti = req.get("t", 0) % nterm
            T = terms[ti]["t"]
            acc["bytes"], acc["printed"] = 0, []
            cur_req[0] = req
            refused_expect = [None]
            kr = None                         # the model request this library call corresponds to (set just before the call)
            kd.begin()
            kw = {}
            for k in ("cols", "rows", "id_space", "id_subspace", "force_upload", "upload_method", "force_id"):
                if req.get(k) is not None:
                    kw[k] = req[k]
            try:
                if op == "tick":
                    clock.t += _dt.timedelta(seconds=req["seconds"])
                    continue
                if op == "touch":   # rewrite a pool file with new content and a new mtime
                    e = pool[req["img"] % len(pool)]
                    if e["path"] and not e.get("absent"):
                        img = U.noise_image(req["w"], req["h"], req["seed"])
                        img.save(e["path"], format="PNG" if e["kind"] in ("png", "home") else "JPEG")
                        dt = req.get("dt", 10)
                        base = e.get("mtime0")
                        if base is None:
                            base = e["mtime0"] = int(os.stat(e["path"]).st_mtime) + 0.1      # early in a second: small steps stay inside it
                        e["mtime0"] = base + dt
                        os.utime(e["path"], (os.stat(e["path"]).st_atime, e["mtime0"]))
                    continue
                if op == "setmax":     # the application changes the command size limit of the terminal object
                    T.term.max_command_size = req["value"]
                    continue
                if op == "touchmem":   # an in-memory image edited IN PLACE (same object, new pixels)
                    e = pool[req["img"] % len(pool)]
                    if e["image"] is not None:
                        patch = U.noise_image(max(1, e["image"].size[0] // 2), max(1, e["image"].size[1] // 2), req["seed"], e["image"].mode)
                        e["image"].paste(patch, (0, 0))
                        e["version"] = e.get("version", 0) + 1
                    continue
                if op == "del":
                    inst = instances.get(req["inst"])
                    if inst is not None:
                        T.id_manager.del_id(inst[0].id)
                        kd.env_del(inst[0].id)
                    continue
                e = pool[req["img"] % len(pool)] if "img" in req else None
                arg = (e["image"] if e["image"] is not None else e.get("arg", e["path"])) if e else None
                if e and e.get("rel"):
                    # the caller names the file relative to its working directory
                    os.chdir(e["cwd"])
                    arg = e["rel"]
                if op in ("display_instance", "redisplay_instance", "redisplay_id") and req.get("inst") in instances:
                    _pi = instances[req["inst"]][1]
                    if pool[_pi].get("version", 0) != inst_version.get(req["inst"], 0):
                        # the pixels the instance described no longer exist anywhere: nothing meaningful to request
                        ctx.count("skipped:instance-of-edited-in-memory-image")
                        continue
                if op == "upload_and_display":
                    token, size, mode = _expected_token(e)
                    kr = dict(entry=e, display=True)
                    # whatever this request prints - also if it ends in an exception - must show the requested image
                    refused_expect[0] = dict(token=token, size=size, mode=mode, entry=e, is_file=_rf(req), rows=None, cols=None)
                    ph = T.upload_and_display(arg, **kw)
                    refused_expect[0] = None
                    sync(ti, req, dict(token=token, size=size, mode=mode, entry=e, is_file=_rf(req),
                                       rows=ph.end_row - ph.start_row, cols=ph.end_col - ph.start_col))
                    kd.request(ti, req, **kr, ret=ph.image_id, cmd_bytes=acc["bytes"], printed=acc["printed"], raised=False)
                elif op == "upload":
                    kr = dict(entry=e, display=False)
                    inst = T.upload(arg, **kw)
                    instances[req["name"]] = (inst, req["img"] % len(pool), _expected_token(e))
                    sync(ti, req)
                    kd.request(ti, req, **kr, ret=inst.id, cmd_bytes=acc["bytes"], printed=acc["printed"], raised=False)
                elif op == "assign":
                    kr = "assign"
                    inst = T.assign_id(arg, **{k: v for k, v in kw.items() if k in ("cols", "rows", "id_space", "id_subspace", "force_id")})
                    instances[req["name"]] = (inst, req["img"] % len(pool), _expected_token(e))
                    sync(ti, req)
                    kd.env_assign(req, inst)
                elif op == "display_instance":   # display_only right after upload of the same instance on the same terminal
                    ent = instances.get(req["inst"])
                    if ent is None:
                        continue
                    inst, pi, (token, size, mode) = ent
                    kr = _inst_request(inst, display=True)
                    T.upload(inst)
                    sync(ti, dict(req, phase="upload"))
                    ph = T.display_only(inst)
                    sync(ti, req, dict(token=token, size=size, mode=mode, entry=pool[pi], is_file=_rf(req), rows=inst.rows, cols=inst.cols))
                    kd.request(ti, req, **kr, ret=ph.image_id, cmd_bytes=acc["bytes"], printed=acc["printed"], raised=False)
                elif op == "redisplay_instance":
                    # upload_and_display of an ImageInstance obtained EARLIER (get_image_instance / upload / assign_id);
                    # other requests may have re-bound its ID since.
                    ent = instances.get(req["inst"])
                    if ent is None:
                        continue
                    inst, pi, (token, size, mode) = ent
                    if pool[pi]["image"] is not None and inst.image is None:
                        inst.image = pool[pi]["image"]
                    kr = _inst_request(inst, display=True)
                    ph = T.upload_and_display(inst, **{k: v for k, v in kw.items() if k in ("force_upload",)})
                    sync(ti, req, dict(token=token, size=size, mode=mode, entry=pool[pi], is_file=_rf(req), rows=inst.rows, cols=inst.cols))
                    kd.request(ti, req, **kr, ret=ph.image_id, cmd_bytes=acc["bytes"], printed=acc["printed"], raised=False)
                elif op == "redisplay_clone":
                    # the same image under the same id with ANOTHER geometry: a copy of an earlier instance with other cols/rows
                    ent = instances.get(req["inst"])
                    if ent is None:
                        continue
                    inst0, pi, (token, size, mode) = ent
                    if pool[pi].get("version", 0) != inst_version.get(req["inst"], 0):
                        ctx.count("skipped:instance-of-edited-in-memory-image")
                        continue
                    if req.get("loaded"):
                        # … of the instance as the library reads it back from the database by id
                        inst0 = T.get_image_instance(inst0.id)
                        if inst0 is None or inst0.get_description() != ent[0].get_description():
                            ctx.count("redisplay-clone:id-rebound-or-unassigned")
                            continue
                    inst = inst0.clone_with(cols=req["cols"], rows=req["rows"])
                    if pool[pi]["image"] is not None and inst.image is None:
                        inst.image = pool[pi]["image"]
                    kr = _inst_request(inst, display=True)
                    ph = T.upload_and_display(inst)
                    sync(ti, req, dict(token=token, size=size, mode=mode, entry=pool[pi], is_file=_rf(req), rows=inst.rows, cols=inst.cols))
                    kd.request(ti, req, **kr, ret=ph.image_id, cmd_bytes=acc["bytes"], printed=acc["printed"], raised=False)
                elif op == "redisplay_id":       # the CLI's `display <id>`: get_image_instance + upload_and_display
                    ent = instances.get(req["inst"])
                    if ent is None:
                        continue
                    inst0 = ent[0]
                    inst = T.get_image_instance(inst0.id)
                    if inst is None:
                        ctx.count("redisplay:unassigned")
                        continue
                    # what is bound to the id NOW decides what must be shown
                    bound = None
                    for nm, (ii, pi, tok) in instances.items():
                        if ii.get_description() == inst.get_description():
                            bound = (pi, tok, nm)
                    if bound is None:
                        continue
                    if pool[bound[0]].get("version", 0) != inst_version.get(bound[2], 0):
                        ctx.count("skipped:instance-of-edited-in-memory-image")
                        continue
                    if pool[bound[0]]["image"] is not None:
                        inst.image = pool[bound[0]]["image"]   # in-memory images cannot be reloaded from a path
                    kr = _inst_request(inst, display=True)
                    ph = T.upload_and_display(inst)
                    token, size, mode = bound[1]
                    sync(ti, req, dict(token=token, size=size, mode=mode, entry=pool[bound[0]], is_file=_rf(req), rows=inst.rows, cols=inst.cols))
                    kd.request(ti, req, **kr, ret=ph.image_id, cmd_bytes=acc["bytes"], printed=acc["printed"], raised=False)
                else:
                    raise ValueError(op)
            except FileNotFoundError:
                ctx.count("exc:FileNotFoundError")   # a touched file whose old instance is redisplayed: the library refuses, nothing is printed
                sync(ti, req, refused_expect[0])
                _k_raised(kd, kr, ti, req, acc)
            except RuntimeError as ex:
                ctx.count("exc:RuntimeError")
                sync(ti, req, refused_expect[0])
                _k_raised(kd, kr, ti, req, acc)
            except UnicodeEncodeError:
                # a file name that is not UTF-8 cannot be announced by name: the library refuses; nothing may be printed (F, in sync);
                # the display model does not know file names, so K stops here
                ctx.count("exc:UnicodeEncodeError")
                sync(ti, req, refused_expect[0])
                kd.give_up("file-name-not-utf8")
            except Exception as ex:
                # any other exception that comes out of the LIBRARY's own code on a request for an image that exists: the display
                # model knows no such refusal (K); what was printed before it is judged like any print (F, in sync).  An exception
                # raised by the harness itself is a tool failure and goes up.
                if kr is None or not _raised_in_library(ex):
                    raise
                if isinstance(ex, ValueError) and (req.get("upload_method") or method_cfg) in UNSUPPORTED_METHODS:
                    # a medium the library does not upload through (temporary file / shared memory as the METHOD): it refuses;
                    # nothing may be printed and no file of the user's may be announced (F, in sync and on_transmit)
                    ctx.count("exc:ValueError:unsupported-upload-method")
                    sync(ti, req, refused_expect[0])
                    kd.give_up("unsupported-upload-method")
                    continue
                ctx.count("exc:" + type(ex).__name__)
                sync(ti, req, refused_expect[0])
                if e is not None and not e.get("absent"):
                    ctx.mismatch("display model: the request raised an exception the model has no counterpart for", c,
                                 {"request": req, "image": e["kind"], "exception": type(ex).__name__ + ": " + str(ex)[:200]}, "displayed / uploaded")
                kd.give_up("unexpected-exception")
        kd.finish()
        for T in terms:
            T["t"].id_manager.close()
    finally:
        os.chdir(_ORIG_CWD)
        if home0 is None:
            os.environ.pop("HOME", None)
        else:
            os.environ["HOME"] = home0
        clock.uninstall()
        tempfile.tempdir = None
        shutil.rmtree(td, ignore_errors=True)


UNSUPPORTED_METHODS = ("temp", "tempfile", "t", "shm", "s")


def _raised_in_library(ex) -> bool:
    """was the exception raised by a frame of the library under test (not by the harness or by PIL/sqlite called from the harness)?"""
    import traceback
    from .common import REPO
    frames = traceback.extract_tb(ex.__traceback__)
    lib = str(Path(REPO) / "tupimage") + os.sep
    return bool(frames) and any(os.path.realpath(f.filename).startswith(os.path.realpath(lib)) for f in frames)


def _inst_request(inst, display):
    """what the model needs to know about an `ImageInstance` request, read off the instance BEFORE the call"""
    is_file = inst.image is None
    return dict(inst_desc=inst.get_description(), inst_id=inst.id, is_file=is_file,
                available=(inst.is_file_available() if is_file else True), display=display)


def _k_raised(kd, kr, ti, req, acc):
    if kr == "assign":
        kd.env_assign(req, None)
    elif kr is not None:
        kd.request(ti, req, **kr, ret=None, cmd_bytes=acc["bytes"], printed=acc["printed"], raised=True)
    # kr is None: the exception came from a harness-side call before the library request; nothing to mirror


def _vkey(req, shows, token):
    if shows == "none":
        return "print-without-image"
    if shows.startswith("INCOMPLETE"):
        return "print-incomplete-transfer"
    if shows.split(":")[0] != token:
        return "print-wrong-image"
    return "print-wrong-geometry"


def _downscale_aware(ctx, c, req, token, size, mode, cfg, spec, iid, entry, is_file):
    """The property allows downscaling only if the image exceeds the configured upload size.
    If the terminal's latest arrival has other pixel dimensions than the source, accept it as the
    expected content iff the source exceeds the limit and the aspect ratio is kept within a pixel."""
    a = next((x for x in spec.log if x["id"] == iid), None)
    if a is None:
        return token
    m = re.search(r"@(\d+)x(\d+)$", a["token"])
    if not m:
        return token
    w, h = int(m.group(1)), int(m.group(2))
    if (w, h) == tuple(size):
        return token
    limit = cfg.get("file_max_size", 10 * 1024 * 1024) if is_file else cfg.get("stream_max_size", 2 * 1024 * 1024)
    raw = size[0] * size[1] * (3 if mode == "RGB" else 4)
    exceeds = raw > limit or (entry["path"] and os.path.getsize(entry["path"]) > limit)
    if exceeds and w <= size[0] and h <= size[1] and abs(w * size[1] - h * size[0]) <= max(size):
        ctx.count("downscaled")
        return a["token"]
    if not exceeds:
        ctx.violation("image was rescaled although it does not exceed the configured upload size", c,
                      {"request": req, "source": list(size), "sent": [w, h], "limit": limit}, key="needless-downscale")
    return token


# ---------------------------------------------------------------------------------------------
# thorough tier: concurrently running CLI processes on ONE terminal (one pty) and one session database
# ---------------------------------------------------------------------------------------------
def cli_stress(ctx: Ctx, c: dict):
    """N `python -m tupimage.cli display` processes share one controlling tty (so one terminal id, one
    session database) and print to that tty too, so the master side sees ONE totally ordered stream of
    graphics commands and placeholder prints.  Each pool image is requested with its own geometry
    (cols x rows), so a printed rectangle identifies the image it must show."""
    import pty
    import select
    import subprocess
    import sys
    import termios
    import fcntl
    import struct
    from .common import REPO
    td = tempfile.mkdtemp(prefix="vc08s")
    try:
        pool = _make_pool(td, c["pool"])
        geoms = {}
        for i, e in enumerate(pool):
            geoms[(1 + i % 4, 2 + i)] = _expected_token(e)[0]      # (rows, cols) -> token
        jobs = []
        for p in range(c["procs"]):
            rng = __import__("random").Random(c["seed"] * 100 + p)
            seq = [rng.randrange(len(pool)) for _ in range(c["per_proc"])]
            jobs.append(seq)
        script = ("import sys, os, subprocess\n"
                  "jobs = %r\npaths = %r\n"
                  "ps = []\n"
                  "for seq in jobs:\n"
                  "    cmd = ';'.join(f'{sys.executable} -m tupimage.cli display --out-display /dev/tty --use-line-feeds no -r {1 + i %% 4} -c {2 + i} {paths[i]}' for i in seq)\n"
                  "    ps.append(subprocess.Popen(cmd, shell=True, cwd=%r))\n"
                  "rc = [p.wait() for p in ps]\n"
                  "sys.exit(1 if any(rc) else 0)\n") % (jobs, [e["path"] for e in pool], str(REPO))
        env = {k: v for k, v in os.environ.items() if not (k.startswith("TUPIMAGE_") or k.startswith("SSH_") or k in ("TMUX", "VERIF_IN_PTY"))}
        env.update(TERM="xterm-kitty", WINDOWID="7", TUPIMAGE_CONFIG="DEFAULT", TUPIMAGE_ID_DATABASE_DIR=os.path.join(td, "state"),
                   TUPIMAGE_ID_SPACE=c["space"], TUPIMAGE_ID_SUBSPACE=c["sub"], TUPIMAGE_UPLOAD_METHOD=c["method"], PYTHONPATH=str(REPO))
        pid, master = pty.fork()
        if pid == 0:
            attrs = termios.tcgetattr(0)
            attrs[1] &= ~termios.OPOST
            attrs[3] &= ~(termios.ECHO | termios.ICANON)
            termios.tcsetattr(0, termios.TCSANOW, attrs)
            os.execve(sys.executable, [sys.executable, "-c", script], env)
        fcntl.ioctl(master, termios.TIOCSWINSZ, struct.pack("HHHH", 50, 120, 960, 800))
        data = bytearray()
        status = None
        t_end = __import__("time").time() + 240
        while True:
            r, _, _ = select.select([master], [], [], 0.2)
            eof = False
            if r:
                try:
                    chunk = os.read(master, 1 << 16)
                    data += chunk
                    eof = not chunk
                except OSError:
                    eof = True
            if eof or not r:
                w, st = os.waitpid(pid, os.WNOHANG if not eof else 0)
                if w == pid:
                    status = st
                    break
            if __import__("time").time() > t_end:
                os.kill(pid, 9)
                raise RuntimeError("cli stress timed out")
        os.close(master)
        ctx.count("cli-processes", c["procs"])
        if os.waitstatus_to_exitcode(status) != 0:
            ctx.violation("a concurrently running CLI process failed", c, {"exit": os.waitstatus_to_exitcode(status), "tail": bytes(data[-300:]).decode("utf-8", "replace")},
                          key="cli-process-failed")
        # split the ordered stream into graphics commands and text
        spec = SpecTerminal("tty")
        d = ctx.driver("drv_e2e")
        pos = 0
        buf = bytes(data)
        while pos < len(buf):
            k = buf.find(b"\x1b_G", pos)
            text = buf[pos: k if k >= 0 else len(buf)]
            if text:
                for (iid, pid_), cells in decode_placeholders(_printable(text)).items():
                    rows = 1 + max(r for r, _ in cells)
                    cols = 1 + max(cc for _, cc in cells)
                    ctx.count("cli-prints")
                    tok = geoms.get((rows, cols))
                    if tok is None:
                        ctx.mismatch("cli printed an unexpected geometry", c, [rows, cols], sorted(geoms))
                        continue
                    r = d.ask(f"printok 1024 {20 * 1024 * 1024} {3600 * 1000000} {iid} {tok} {rows} {cols} 0 {spec.wire_log()}")
                    if not r.startswith("1"):
                        ctx.violation("concurrent CLI processes: placeholder printed for an image the terminal does not hold", c,
                                      {"printed_id": iid, "geometry": [rows, cols], "expected": tok, "terminal_holds": r.split(" ", 1)[1]},
                                      key="cli-" + _vkey(None, r.split(" ", 1)[1], tok))
            if k < 0:
                break
            e = buf.find(b"\x1b\\", k)
            if e < 0:
                break
            spec.feed(buf[k: e + 2], 0, lambda *a: None)
            pos = e + 2
    finally:
        shutil.rmtree(td, ignore_errors=True)


def _printable(b: bytes) -> bytes:
    return b.decode("utf-8", "ignore").encode("utf-8")


# ---------------------------------------------------------------------------------------------
def cases(ctx: Ctx):
    rng = ctx.rng
    if not ctx.quick:
        for procs, space, sub in [(2, "8bit", "5:7"), (3, "8bit", "5:8"), (4, "16bit", "1:2"), (4, "32bit", "0:256"), (3, "8bit", "9:11")]:
            for method in ("direct", "file"):
                yield dict(k="cli-stress", procs=procs, per_proc=3, space=space, sub=sub, method=method, seed=rng.randrange(1000),
                           pool=[["png", 8, 8, rng.randrange(1 << 30)] for _ in range(4)])
    from . import termid
    yield from termid.cases(rng, 40 if ctx.quick else 400)
    from . import c08_cli
    yield from c08_cli.cases(ctx)
    # chunk-size sweep: the same image sent inline under consecutive command-size limits, so that payload lengths that are
    # exact multiples of the chunk size (and one more / one less) all occur, whatever the header length is
    def _png_len(w_, h_, sd):
        b = io.BytesIO()
        U.noise_image(w_, h_, sd, "RGB").save(b, format="PNG")
        return b.tell()

    for layers in ((0, 1) if ctx.quick else (0, 1, 2)):
        base = rng.randrange(96, 110)
        # an image whose encoded length IS a multiple of one of the chunk payload sizes the sweep goes through (multiples of 3)
        # (noise does not compress, so the length depends on the dimensions: 3wh + h + a constant)
        sweep_img = next(((w_, h_, sd) for (w_, h_, sd) in ((rng.randrange(6, 15), rng.randrange(6, 15), rng.randrange(1 << 30)) for _ in range(400))
                          if sum(1 for cc in range(39, 118, 3) if _png_len(w_, h_, sd) % cc == 0) >= 2), (9, 13, 1))
        reqs = []
        for mcs in range(base + 60 * layers, base + 60 * layers + (150 if ctx.quick else 400)):
            reqs.append(dict(op="setmax", t=0, value=mcs))
            reqs.append(dict(op="upload_and_display", t=0, img=0, cols=2, rows=1, force_upload=True))
        yield dict(k="scenario", terminals=1, ssh=False,
                   config=dict(id_space="24bit", id_subspace="0:256", upload_method="direct", max_command_size=4096,
                               **({"num_tmux_layers": layers} if layers else {})),
                   pool=[["mem-rgb", *sweep_img]], requests=reqs)
    n = 600 if ctx.quick else 6000
    for i in range(n):
        nterm = rng.choice([1, 1, 2, 3])
        space, sub = rng.choice([("8bit", "5:7"), ("8bit", "1:4"), ("16bit", "1:2"), ("24bit", "3:4"), ("32bit", "0:256"),
                                 ("8bit_diacritic", "2:4"), ("24bit", "0:256"), ("8bit", "9:10")])
        method = rng.choice(["auto", "file", "direct", "auto"]) if rng.random() < 0.96 else rng.choice(["temp", "shm"])
        ssh = rng.random() < 0.35
        cfg = dict(id_space=space, id_subspace=sub, upload_method=method,
                   max_command_size=rng.choice([4096, rng.randrange(110, 900), rng.randrange(110, 400)]),
                   reupload_max_uploads_ago=rng.choice([1024, 1, 2, 3]),
                   reupload_max_bytes_ago=rng.choice([20 * 1024 * 1024, 3000, 1500]),
                   stream_max_size=rng.choice([2 * 1024 * 1024, 1200]),
                   file_max_size=rng.choice([10 * 1024 * 1024, 1500]),
                   max_ids_per_subspace=rng.choice([1024, 2, 3]))
        if rng.random() < 0.15:
            cfg["supported_formats"] = ["png", "jpeg"]
        if rng.random() < 0.15:
            cfg["num_tmux_layers"] = rng.choice([1, 2])
        term_names = None
        if rng.random() < 0.2:
            term_names = [rng.choice(["st-256color", "xterm-kitty", "st", "xterm-ghostty"]) for _ in range(nterm)]
        pool = []
        if rng.random() < 0.15:
            for dj in range(rng.choice([2, 3])):
                pool.append([f"rel{dj}", 8, 8, rng.randrange(1 << 30)])
        odd = rng.random() < 0.15
        for j in range(rng.randrange(2, 7)):
            kind = rng.choice(["png", "png", "jpeg", "mem-rgb", "mem-rgba"])
            w, h = rng.choice([(8, 8), (12, 5), (30, 30), (5, 17), (40, 25)])
            pool.append([kind, w, h, rng.randrange(1 << 30)])
            if odd and kind in ("png", "jpeg"):
                pool[-1].append(rng.choice(ODD_NAMES))
        reqs = []
        names = []
        for j in range(rng.randrange(3, 14 if ctx.quick else 30)):
            r = rng.random()
            t = rng.randrange(nterm)
            geom = rng.choice([{}, {}, dict(cols=rng.randrange(1, 6)), dict(rows=rng.randrange(1, 4)), dict(cols=rng.randrange(1, 6), rows=rng.randrange(1, 4))])
            if r < 0.45 or not names:
                q = dict(op="upload_and_display", t=t, img=rng.randrange(len(pool)), **geom)
                if rng.random() < 0.1:
                    q["force_upload"] = True
                if rng.random() < 0.15:
                    q["upload_method"] = rng.choice(["file", "direct", "auto", "f", "d", "file", "direct", "temp", "t", "shm"])     # per call, whatever is configured
                if rng.random() < 0.12:
                    # explicit IDs from the byte-class corners of the ID layout
                    b = lambda: rng.choice([0, 0, 1, 5, 127, 255])
                    fid = (b() << 24) | (b() << 16) | (b() << 8) | b()
                    if fid:
                        q["force_id"] = fid
                reqs.append(q)
                nm = f"i{j}"
                reqs.append(dict(op="assign", t=t, img=q["img"], name=nm, **geom, **({"force_id": q["force_id"]} if "force_id" in q else {})))  # lets later requests refer to this image's instance
                names.append(nm)
            elif r < 0.6:
                nm = f"i{j}"
                reqs.append(dict(op="upload", t=t, img=rng.randrange(len(pool)), name=nm, **geom,
                                 **({"upload_method": rng.choice(["file", "direct", "auto"])} if rng.random() < 0.15 else {})))
                names.append(nm)
                reqs.append(dict(op="display_instance", t=t, inst=nm))
            elif r < 0.64:
                reqs.append(dict(op="redisplay_id", t=t, inst=rng.choice(names)))
            elif r < 0.66:
                reqs.append(dict(op="redisplay_clone", t=t, inst=rng.choice(names), cols=rng.randrange(1, 7), rows=rng.randrange(1, 4),
                                 **({"loaded": True} if rng.random() < 0.5 else {})))
            elif r < 0.68:
                # the id of an earlier instance forced onto a request for an image (the same or another) with its own geometry,
                # then the EARLIER instance used again
                nm0 = rng.choice(names)
                reqs.append(dict(op="upload_and_display", t=t, img=rng.randrange(len(pool)), force_id_of=nm0, cols=rng.randrange(1, 7), rows=rng.randrange(1, 4)))
                reqs.append(dict(op="redisplay_instance", t=t, inst=nm0))
            elif r < 0.75:
                q = dict(op="redisplay_instance", t=t, inst=rng.choice(names))
                if rng.random() < 0.4:
                    q["force_upload"] = True
                reqs.append(q)
            elif r < 0.80:
                reqs.append(dict(op="tick", seconds=rng.choice([1, 100, 4000])))
            elif r < 0.87 and any(k.startswith("mem") for (k, *_r) in pool):
                mi = rng.choice([i for i, (k, *_r) in enumerate(pool) if k.startswith("mem")])
                if rng.random() < 0.7:
                    reqs.append(dict(op="upload_and_display", t=t, img=mi, **geom))       # shown …
                reqs.append(dict(op="touchmem", img=mi, seed=rng.randrange(1 << 30)))    # … edited in place …
                reqs.append(dict(op="upload_and_display", t=t, img=mi, **geom))           # … shown again: must be the new pixels
            elif r < 0.9:
                ti_ = rng.randrange(len(pool))
                sub_second = rng.random() < 0.4
                reqs.append(dict(op="touch", img=ti_, w=rng.choice([6, 9]), h=rng.choice([6, 7]), seed=rng.randrange(1 << 30),
                                 dt=rng.choice([0.25, 0.5, 0.001]) if sub_second else rng.choice([10, 1000])))
                if sub_second:
                    # … shown again right away: the rewritten file is another image although its mtime moved by less than a second
                    reqs.append(dict(op="upload_and_display", t=t, img=ti_, **geom))
            else:
                reqs.append(dict(op="del", t=t, inst=rng.choice(names)))
        yield dict(k="scenario", terminals=nterm, ssh=ssh, config=cfg, pool=pool, requests=reqs, **({"term_names": term_names} if term_names else {}))
    # terminal programs that decode different formats on ONE session database, images that must be re-encoded before a file upload
    # (generated last: the random scenarios above keep the stream of `rng` they always had)
    yield from format_scenarios(rng, 40 if ctx.quick else 400)


def format_scenarios(rng, n):
    """Directed at the re-encoding decisions of a file upload: at least one terminal program that decodes JPEG (`st…`, or JPEG
    configured as supported) next to programs that do not, on one session database; the file method (configured, automatic
    without SSH, or per call over a configured inline method); a file size limit chosen AROUND the pool's sizes - JPEG files
    of small images are larger than their raw pixels, so there are files over the limit whose pixels are under it (re-encoded
    without downscaling), files over it in both senses (downscaled) and files under it (announced by name); in-memory images
    that came from Image.open of a JPEG / PNG file (PIL remembers the source format) next to synthetic ones; names under which
    no image exists (a missing file, a name with the reserved leading colon).  The same image is requested on every terminal
    in turn, redisplayed by ID and through its instance."""
    for _ in range(n):
        nterm = rng.choice([1, 2, 2, 3])
        term_names = [rng.choice(["st-256color", "st", "stterm"])] + [rng.choice(["xterm-kitty", "xterm-ghostty", "st-256color", "xterm-256color"])
                                                                        for _ in range(nterm - 1)]
        rng.shuffle(term_names)
        how = rng.choice(["file", "file", "auto", "per-call"])
        cfg = dict(id_space=rng.choice(["24bit", "32bit", "8bit"]), id_subspace=rng.choice(["0:256", "3:9"]),
                   upload_method={"file": "file", "auto": "auto", "per-call": "direct"}[how],
                   file_max_size=rng.choice([150, 200, 300, 500, 700, 800, 1300, 4000]),
                   stream_max_size=rng.choice([2 * 1024 * 1024, 1200]), max_command_size=4096)
        r = rng.random()
        if r < 0.15:
            term_names = [rng.choice(["xterm-kitty", "xterm-256color"]) for _ in range(nterm)]
            cfg["supported_formats"] = rng.choice([["png", "jpeg"], ["jpeg", "png"]])      # PNG is the protocol's own format: always listed
        elif r < 0.25:
            cfg["supported_formats"] = ["png"]          # the user says: PNG only, whatever the program is called
        if rng.random() < 0.2:
            cfg["reupload_max_uploads_ago"] = rng.choice([1, 2])
        pool = []
        for _j in range(rng.randrange(2, 6)):
            kind = rng.choice(["jpeg", "jpeg", "openjpeg", "openjpeg", "png", "openpng", "mem-rgb", "mem-rgba"])
            w, h = rng.choice([(8, 8), (8, 8), (12, 5), (5, 17), (30, 30), (40, 25)])
            pool.append([kind, w, h, rng.randrange(1 << 30)])
        if rng.random() < 0.25:
            pool.append([rng.choice(["missing", "colon"]), 8, 8, 0])
        reqs, names = [], []
        for j in range(rng.randrange(3, 9)):
            img = rng.randrange(len(pool))
            geom = rng.choice([{}, dict(cols=rng.randrange(1, 6)), dict(cols=rng.randrange(1, 6), rows=rng.randrange(1, 4))])
            if pool[img][0] in ("missing", "colon") and rng.random() < 0.7:
                geom = dict(cols=rng.randrange(1, 6), rows=rng.randrange(1, 4))     # no need to open the image for its size
            per = {"upload_method": rng.choice(["file", "f"])} if how == "per-call" and rng.random() < 0.8 else {}
            r = rng.random()
            if r < 0.6 or not names or pool[img][0] in ("missing", "colon"):
                # the same image on every terminal in turn (what one program decodes another may not)
                order = list(range(nterm))
                rng.shuffle(order)
                for t in order[:rng.randrange(1, nterm + 1)]:
                    q = dict(op="upload_and_display", t=t, img=img, **geom, **per)
                    if rng.random() < 0.15:
                        q["force_upload"] = True
                    reqs.append(q)
                if pool[img][0] not in ("missing", "colon"):
                    nm = f"f{j}"
                    reqs.append(dict(op="assign", t=order[0], img=img, name=nm, **geom))
                    names.append(nm)
            elif r < 0.75:
                nm = f"f{j}"
                t = rng.randrange(nterm)
                reqs.append(dict(op="upload", t=t, img=img, name=nm, **geom, **per))
                names.append(nm)
                reqs.append(dict(op="display_instance", t=t, inst=nm))
            elif r < 0.85:
                reqs.append(dict(op="redisplay_id", t=rng.randrange(nterm), inst=rng.choice(names)))
            elif r < 0.93:
                reqs.append(dict(op="redisplay_instance", t=rng.randrange(nterm), inst=rng.choice(names), **({"force_upload": True} if rng.random() < 0.4 else {})))
            else:
                files = [i for i, (k, *_r) in enumerate(pool) if k in ("png", "jpeg")]
                if files:
                    reqs.append(dict(op="touch", img=rng.choice(files), w=rng.choice([6, 9, 20]), h=rng.choice([6, 7, 20]), seed=rng.randrange(1 << 30), dt=10))
        yield dict(k="scenario", terminals=nterm, ssh=False, config=cfg, pool=pool, requests=reqs, term_names=term_names)


def run(ctx: Ctx):
    ctx.rule = ("generated request scenarios: 1-3 terminals on one session database; pool of PNG/JPEG files and in-memory RGB/RGBA images; "
                "ID spaces with tiny subspaces (forcing recycling) and large ones; upload method auto/file/direct x SSH on/off; small "
                "re-upload thresholds (forcing eviction by the adversarial terminal), small size limits (forcing downscaling), tmux layers; "
                "requests: upload_and_display, upload + display_only of the returned instance, redisplay by ID, clock ticks, file rewrites, "
                "deletions; directed format scenarios: terminal programs that decode JPEG (st) next to PNG-only ones / configured format lists on one "
                "database, file method configured / automatic / per call, file size limits around the pool's file and raw sizes (re-encode without "
                "and with downscaling, announce by name), JPEG/PNG files, in-memory images from Image.open (source format remembered) and synthetic "
                "ones, names under which no image exists (missing file, reserved leading colon: nothing may be shown). distinct = canonical JSON; non-trivial = scenario with >= 3 requests")
    cdir = Path(__file__).resolve().parent.parent / "corpus" / "C08"
    if cdir.is_dir():
        for f in sorted(cdir.glob("*.json")):
            c = json.load(open(f))
            check_case(ctx, c)
            ctx.case(c)
            ctx.count("corpus")
    for c in cases(ctx):
        if ctx.time_left() < 0:
            ctx.count("skipped-over-budget")
            continue
        check_case(ctx, c)
        ctx.case(c, nontrivial=(c.get("k") in ("cli-stress", "terminal-switch", "cli-seq") or len(c.get("requests", [])) >= 3))
